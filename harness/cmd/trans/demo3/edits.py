#!/usr/bin/env python3
"""single textual edits of /repo's datafile/data_file.go for the round-3 robustness demo
usage: edits.py <worktree> <name>      (applies the edit, exits 1 if the pattern is not found exactly once)
       edits.py --list"""
import sys

F = "datafile/data_file.go"
EDITS = {
    # ---- behaviour-changing
    "C1": ("next: block-tail skip `>=` -> `>`",
           "if reader.offset+chunkHeaderSize >= blockSize {", "if reader.offset+chunkHeaderSize > blockSize {"),
    "C2": ("next: the `validEnd` update dropped",
           "\t\t\treader.validEnd = off + int64(reader.offset)\n", ""),
    "C3": ("next: torn-tail rule without `off+int64(size) == fileSize`",
           "if (err == ErrIncompleteChunk && reader.tolerateTornTail && off+int64(size) == fileSize) ||",
           "if (err == ErrIncompleteChunk && reader.tolerateTornTail) ||"),
    "C4": ("next: tornZero rule `end < fileSize` -> `end <= fileSize`",
           "if end < fileSize && reader.dataFile.zeroUntilEnd(end, fileSize) {",
           "if end <= fileSize && reader.dataFile.zeroUntilEnd(end, fileSize) {"),
    "C5": ("zeroUntilEnd: `for from < fileSize` -> `for from+1 < fileSize` (last byte not looked at)",
           "for from < fileSize {", "for from+1 < fileSize {"),
    "C6": ("endOfLog: `cnt > 0` -> `cnt > 1`",
           "if cnt > 0 && !reader.tolerateTornTail {", "if cnt > 1 && !reader.tolerateTornTail {"),
    "C7": ("next: header test of the tornZero rule `<=` -> `<`",
           "if reader.offset+chunkHeaderSize <= size {", "if reader.offset+chunkHeaderSize < size {"),
    "C8": ("next: `pos.Size` without the chunk headers",
           "pos.Size = cnt*chunkHeaderSize + uint32(len(res))", "pos.Size = uint32(len(res))"),
    "C9": ("next: only `Last` ends a record",
           "\t\tif chunkType == Full || chunkType == Last {\n\t\t\treader.offset +=", "\t\tif chunkType == Last {\n\t\t\treader.offset +="),
    "C10": ("Truncate: `size % blockSize` -> `size % (blockSize - 1)`",
            "df.lastBlockSize = uint32(size % blockSize)", "df.lastBlockSize = uint32(size % (blockSize - 1))"),
    "C11": ("zeroUntilEnd: `b != 0` -> `b > 1`",
            "\t\t\tif b != 0 {", "\t\t\tif b > 1 {"),
    "C12": ("next: the non-final chunk does not advance the block (`reader.blockID += 1` dropped)",
            "\t\treader.offset = 0\n\t\treader.blockID += 1\n", "\t\treader.offset = 0\n"),
    # ---- behaviour-preserving
    "P1": ("next: `off >= fileSize` -> `fileSize <= off`",
           "\t\tif off >= fileSize {\n\t\t\treturn nil, nil, reader.endOfLog(cnt)", "\t\tif fileSize <= off {\n\t\t\treturn nil, nil, reader.endOfLog(cnt)"),
    "P2": ("next: `reader.offset = 0` / `reader.blockID += 1` swapped",
           "\t\treader.offset = 0\n\t\treader.blockID += 1\n", "\t\treader.blockID += 1\n\t\treader.offset = 0\n"),
    "P3": ("next: `cnt++` -> `cnt += 1`", "\t\tcnt++\n", "\t\tcnt += 1\n"),
    "P4": ("next: `chunkType == Full || chunkType == Last` -> `chunkType == Last || chunkType == Full`",
           "\t\tif chunkType == Full || chunkType == Last {\n\t\t\treader.offset +=", "\t\tif chunkType == Last || chunkType == Full {\n\t\t\treader.offset +="),
    "P5": ("zeroUntilEnd: `min(fileSize-from, blockSize)` -> `min(blockSize, fileSize-from)`",
           "n := int(min(fileSize-from, blockSize))", "n := int(min(blockSize, fileSize-from))"),
    "P6": ("next: `end := off + int64(size)` -> `end := int64(size) + off`",
           "end := off + int64(size)", "end := int64(size) + off"),
    "P7": ("next: local `length` renamed to `l`",
           None, None),
    "P8": ("next: `min(fileSize-off, blockSize)` -> `min(blockSize, fileSize-off)`",
           "size := uint32(min(fileSize-off, blockSize))\n\n\t\tif reader.offset >= size {\n\t\t\treturn nil, nil, reader.endOfLog(cnt)",
           "size := uint32(min(blockSize, fileSize-off))\n\n\t\tif reader.offset >= size {\n\t\t\treturn nil, nil, reader.endOfLog(cnt)"),
    "P9": ("next: the two early `endOfLog` returns merged: `if off >= fileSize || …` is not possible (size depends on off); instead `reader.offset >= size` -> `size <= reader.offset`",
           "\t\tif reader.offset >= size {\n\t\t\treturn nil, nil, reader.endOfLog(cnt)", "\t\tif size <= reader.offset {\n\t\t\treturn nil, nil, reader.endOfLog(cnt)"),
    "P10": ("endOfLog: `cnt > 0 && !tol` -> `!tol && cnt != 0`",
            "if cnt > 0 && !reader.tolerateTornTail {", "if !reader.tolerateTornTail && cnt != 0 {"),
    "P11": ("next: `int64(reader.blockID) * blockSize` -> `blockSize * int64(reader.blockID)`",
            "off := int64(reader.blockID) * blockSize", "off := blockSize * int64(reader.blockID)"),
    "P12": ("zeroUntilEnd: `from += int64(n)` -> `from = from + int64(n)`",
            "from += int64(n)", "from = from + int64(n)"),
    # ---- leaving the subset
    "U1": ("zeroUntilEnd: the range loop replaced by a counted loop `for i := 0; i < n; i++`",
           "\t\tfor _, b := range block[0:n] {\n\t\t\tif b != 0 {", "\t\tfor i := 0; i < n; i++ {\n\t\t\tb := block[i]\n\t\t\tif b != 0 {"),
    "U2": ("next: `res = append(res, data...)` -> `res = data` (the result would alias the block buffer)",
           "res = append(res, data...)", "res = data"),
    "U3": ("next: the error of the read handled by a `switch`",
           "\t\tif err != nil {\n\t\t\treturn nil, nil, err\n\t\t}\n\n\t\t// 对当前 chunk 解码\n\t\t// 仅解码实际读取到的字节, 缓冲区其余部分为之前读取的残留数据\n\t\tdata, chunkType, err := DecodeChunk(reader.blockBuf",
           "\t\tswitch {\n\t\tcase err != nil:\n\t\t\treturn nil, nil, err\n\t\t}\n\n\t\tdata, chunkType, err := DecodeChunk(reader.blockBuf"),
}

def main():
    if sys.argv[1] == "--list":
        for k, v in EDITS.items():
            print(k, "-", v[0])
        return
    root, name = sys.argv[1], sys.argv[2]
    path = root + "/" + F
    s = open(path).read()
    if name == "P7":
        import re
        start = s.index("func (reader *DataReader) next()")
        end = s.index("func (reader *DataReader) endOfLog")
        body = s[start:end]
        body2 = re.sub(r"\blength\b", "l", body)
        if body2 == body:
            sys.exit(1)
        s = s[:start] + body2 + s[end:]
    else:
        _, old, new = EDITS[name]
        if s.count(old) != 1:
            print("pattern of", name, "found", s.count(old), "times", file=sys.stderr)
            sys.exit(1)
        s = s.replace(old, new)
    open(path, "w").write(s)
    print(name, "-", EDITS[name][0])

main()
