#!/bin/bash
# Round-3 robustness demo: single edits of next / zeroUntilEnd / endOfLog / Truncate in a scratch worktree of
# /repo, translated and checked against Proofs/TransEq3.lean.  Log: demo3.log next to this script.
#   usage: run.sh [names…]        (default: all edits of edits.py)
set -u
here="$(cd "$(dirname "$0")" && pwd)"
root="$(cd "$here/../../../.." && pwd)"
export GOFLAGS=-mod=mod GOPROXY=off GOSUMDB=off GOTOOLCHAIN=local
W=/tmp/t3a-w
log="$here/demo3.log"
gen="$root/lean/XixiKV/Generated/Trans.lean"
git -C /repo worktree remove --force "$W" 2>/dev/null
git -C /repo worktree add --detach "$W" HEAD >/dev/null 2>&1 || { echo "cannot create worktree"; exit 1; }
trap 'git -C /repo worktree remove --force "$W" 2>/dev/null; "$root/harness/bin/trans" /repo "$gen" >/dev/null' EXIT
names="$*"
[ -z "$names" ] && names="$(python3 "$here/edits.py" --list | cut -d' ' -f1)"
[ -z "$*" ] && : > "$log"   # a partial run appends
for n in $names; do
  git -C "$W" checkout -q -- .
  desc="$(python3 "$here/edits.py" "$W" "$n")" || { echo "$n: edit not applicable" | tee -a "$log"; continue; }
  if ! (cd "$W" && go build ./datafile/ 2>>"$log"); then echo "$desc: EDITED PACKAGE DOES NOT COMPILE" | tee -a "$log"; continue; fi
  "$root/harness/bin/trans" "$W" "$gen" >/dev/null 2>"$here/.trans.err"; tr=$?
  start=$(date +%s)
  if (cd "$root/lean" && lake build XixiKV.Proofs.TransEq3 XixiKV.Proofs.TransEq3Trunc >"$here/.lake.out" 2>&1); then res="TransEq3 BUILDS"; else
    res="TransEq3 FAILS ($(grep -m1 -o 'error: [^:]*:[0-9]*:[0-9]*' "$here/.lake.out" | sed 's/error: //') $(grep -m1 -A1 'error:' "$here/.lake.out" | tail -1 | cut -c1-100))"; fi
  echo "$desc | trans exit $tr $(head -c 200 "$here/.trans.err" | tr '\n' ' ') | $res | $(( $(date +%s) - start )) s" | tee -a "$log"
done
rm -f "$here/.trans.err" "$here/.lake.out"
