// trans translates a whitelist of pure arithmetic / byte-level Go functions of /repo into Lean 4
// definitions, mechanically, by walking the go/ast of each function body.
//
//	usage: trans <repo> <outfile>
//
// The output (namespace XixiKV.Generated.Trans) is regenerated on every run; the Lean file
// XixiKV/Proofs/TransEq.lean proves every generated definition equal to the hand-written model
// function.  A change of the Go source changes the generated definition, and the equality proof
// either still checks (harmless rewrite) or breaks.
//
// # Go subset (everything else: exit status 2 with a message, never a guess)
//
//	types       int, int64 (signed, Lean Int wrapped to 64 bits), uint8/byte, uint16, uint32, uint64,
//	            uint (unsigned, Lean Nat kept below 2^bits), []byte (Lean ByteArray, value semantics, see
//	            "byte buffers"), error (Option String), structs / pointers to structs of the package
//	            whose fields are integers or []byte (Lean structure generated from the type declaration;
//	            as parameters they are read only)
//	statements  x := e   x = e   a, b := e1, e2 (simultaneous)   x op= e (+ - * / % | & << >>)   x++  x--
//	            a, b := f(…)  /  a, _ = f(…)   (f in the primitive table or an already translated function)
//	            p.F = e (field of a struct local)   var x T   var x = e   var ( … )
//	            b[i] = e   copy(b, e)   (b a written []byte variable)
//	            if c { … } [else { … } | else if …]      (no init statement)
//	            for c { … }                               (no init/post; body without return/break/continue:
//	                                                       a state transformer)
//	            for { … } / for c { … } with return, break, continue in the body (body ↦ Ctl, see below)
//	            (loops: not nested, fuel expression from the whitelist table)
//	            for i := c; i < N; i++ { … }  with constants c, N, no `continue` and no write to i in the body
//	                                          (round 4, round4.go: rewritten to `i := c; for i < N { …; i++ }`, fuel computed)
//	            return e1, …, en; falling off the end of a function without results
//	            the statement sequences of the effect table below
//	expressions integer literals and constants (named package constants are emitted as Lean defs with
//	            the value computed by go/types; other constant expressions are folded by go/types),
//	            locals, parameters, integer fields of the receiver (become extra parameters recv_Field),
//	            fields of struct locals / struct parameters, + - * / % (divisor: non-zero constant)
//	            & | << >> (constant count), == != < <= > >=, && || !, integer conversions T(e),
//	            min/max(a,b), len(b), b[i], b[lo:hi], b[lo:], b[:hi], make([]byte, n),
//	            &T{F: e, …} / T{F: e, …}, nil ([]byte or error), err == nil / err != ErrX,
//	            package level error variables (also of imported packages: io.EOF),
//	            the library calls of the primitive table, calls of already translated functions /
//	            methods on the same receiver (without loops and effects)
//
// No other calls, no shadowing / redeclaration of a local name, no closures, no goto/labels,
// no switch/range/defer/go, no bool locals, no aliasing of a written buffer (see below).
//
// # Translation scheme
//
// The mutable locals of a function (and the parameters it assigns or writes into) become the fields of
// a Lean structure `<pkg>.<func>.St`; every statement is a `let st : St := { st with x := e }`, an `if`
// without return is a state transformer `let st := if c then … st else … st`, an `if` with a return
// puts the rest of the block into the branch that continues.  `for c { body }` without
// return/break/continue becomes
//
//	<func>.body<i> : St → St                 the loop body
//	<func>.loop<i> : Nat → St → Option St    structural recursion on fuel; `none` = fuel exhausted
//
// a loop with return / break / continue in its body becomes
//
//	<func>.body<i> : St → Ctl St R           Ctl = next st | brk st | ret v   (R = result type)
//	<func>.loop<i> : Nat → St → Option (St ⊕ R)
//	   | 0, _ => none | fuel+1, st => [if c then] Ctl.step (body st) (loop fuel) [else some (.inl st)]
//	   … Ctl.after (loop fuel st) fun st => <rest of the function>
//
// and a function with a loop returns `Option result` (`none` is never a Go result: an equality
// `f … = some r` therefore also proves that the fuel of the table sufficed).  A function with
// segment effects additionally returns the list of emitted segments (`List Seg`), a function with
// byte-append effects the appended byte string (last component of the result).
//
// # Byte buffers
//
// []byte values are immutable Lean ByteArrays; a variable that is written (b[i] = x, copy(b, …), a write
// primitive PutVarint(b[i:], …), the read effect) is a state field that is overwritten as a whole
// (`putAt`, `copySlice`).  This is only sound without aliasing, which is enforced syntactically: a
// written variable may only be assigned fresh values (make, nil), and a variable that may be a view of a
// written buffer (a sub-slice, or the []byte result of a call that received one) must be declared by
// that very statement with no later write to the buffer in its scope.  Written []byte *parameters* are
// assumed not to overlap the other parameters, and their final content is not part of the result.
//
// # Integer semantics (faithful, not idealised)
//
//	int, int64   Lean Int; every + - * << ++ -- is wrapped to 64-bit two's complement by `i64`;
//	             / and % are Int.tdiv / Int.tmod (truncation towards zero) and need a non-zero
//	             constant divisor; >> is the arithmetic shift; | & are two's-complement ior / iand.
//	             int <-> int64 conversions are the identity (64-bit platform).
//	uintN        Lean Nat below 2^N: a+b ↦ (a + b) % 2^N, a-b ↦ (a + 2^N - b) % 2^N,
//	             a*b ↦ (a * b) % 2^N, a<<k ↦ (a <<< k) % 2^N; / % >> | & cannot leave the range.
//	conversions  uintN(e) of a signed e ↦ (e % 2^N).toNat (Int.emod: two's complement truncation),
//	             uintM(e) of an unsigned e ↦ e % 2^M when narrowing, int(e) of unsigned e ↦ (e : Int)
//	             (wrapped by i64 for uint64).
//
// Not modelled: run-time panics (index / slice bounds, which is why `b[lo:hi]` is `b.extract lo hi`
// and agrees with Go only for lo ≤ hi ≤ len(b); make with a negative size; nil pointer dereference;
// division by zero is excluded syntactically), slice capacity (Go allows re-slicing up to cap(b)), the
// distinction between nil and empty slices, `len` ≥ 2^63, IO errors of the read effect.
//
// On any construct outside the subset the tool prints a message, exits with status 2 and
// leaves the function (and its callers) out of <outfile>, so that the theorems about it stop elaborating and no stale
// translation survives.
//
// # Round 3
//
// round3.go extends the subset for the sequential reader (`DataReader.next`, `zeroUntilEnd`, `endOfLog`,
// `Truncate`): assigned / written receiver fields, receiver fields behind one more pointer, bool and
// []byte receiver fields, `range` loops over bytes, calls of translated functions with loops (in `if`
// conditions), join points, bool / nil-able pointer results, `x = append(x, e...)`; the hooks in this file
// are marked `(round 3)`.  See NOTES.md, "Round 3".
package main

import (
	"fmt"
	"go/ast"
	"go/constant"
	"go/importer"
	"go/parser"
	"go/printer"
	"go/token"
	"go/types"
	"math/big"
	"os"
	"path/filepath"
	"regexp"
	"sort"
	"strings"
)

// ---------------------------------------------------------------------------------------------
// tables (the trusted, hand-written part besides the generic walker)
// ---------------------------------------------------------------------------------------------

// whitelist, in output order (a function may only call functions that precede it)
type spec struct {
	pkg   string   // directory below the repo root
	recv  string   // receiver type name, "" for plain functions
	fn    string   // function name
	fuel  []string // fuel (Lean expression over the parameters) of the i-th `for` loop
	slice *sliceSpec
	lean  string // name of the generated definition when it is not fn (methods of the same name on several receivers; dt.go)
	dt    string // dt.go: "putArgs" = the function ends in `return recv.db.Put(k, v)`; the generated definition yields (k, v)
}

// slice mode: only one expression of a function with effects is translated
type sliceSpec struct {
	assignTo string // translate the right-hand side of the unique assignment to this l-value
	lean     string // name of the generated definition
	guard    string // also translate the condition of the first `if` of the body under this name
}

var whitelist = []spec{
	{pkg: "datafile", fn: "GetLogRecordDiskSize"},
	{pkg: "datafile", recv: "DataFile", fn: "writeToBuf", fuel: []string{"data.size + 1"}},
	{pkg: "datafile", fn: "DecodeChunk"},
	{pkg: "datafile", fn: "DecodeLogRecord"},
	{pkg: "datafile", fn: "DecodeLogRecordValue"},
	// round 4: the checks the readers run before the decoders (TransEq5.lean)
	{pkg: "datafile", fn: "validLogRecord"},
	{pkg: "datafile", fn: "validHintRecord"}, // counted loop: fuel computed (round4.go)
	{pkg: "datafile", fn: "EncodeLogRecord"},
	{pkg: "datafile", fn: "EncodeHintRecord"},
	{pkg: "datafile", fn: "DecodeHintRecord"},
	{pkg: "datafile", recv: "DataFile", fn: "Size"},
	{pkg: "datafile", recv: "DataFile", fn: "readToBuf", fuel: []string{"file.size + 1"}},
	// round 3 (loop 1 of zeroUntilEnd is a range loop: structural recursion on the length, no fuel)
	{pkg: "datafile", recv: "DataFile", fn: "zeroUntilEnd", fuel: []string{"fileSize.toNat + 1"}},
	{pkg: "datafile", recv: "DataReader", fn: "endOfLog"},
	{pkg: "datafile", recv: "DataReader", fn: "next", fuel: []string{"file.size + 1"}},
	{pkg: "datafile", recv: "DataFile", fn: "Truncate"},
	{pkg: "index", fn: "nextPowerOfTwo"},
	{pkg: "fio", recv: "MMap", fn: "remap", slice: &sliceSpec{assignTo: "m.endOff", lean: "remap_endOff", guard: "remap_covered"}},
	// round 3b (dt.go): the redis-layer codecs of datatype/meta.go
	{pkg: "datatype", recv: "metadata", fn: "encode", lean: "metadata_encode"},
	{pkg: "datatype", fn: "decodeMetadata"},
	{pkg: "datatype", recv: "hashInternalKey", fn: "encode", lean: "hashInternalKey_encode"},
	{pkg: "datatype", recv: "setInternalKey", fn: "encode", lean: "setInternalKey_encode"},
	{pkg: "datatype", recv: "listInternalKey", fn: "encode", lean: "listInternalKey_encode"},
	{pkg: "datatype", recv: "zsetInternalKey", fn: "encodeWithMember", lean: "zsetInternalKey_encodeWithMember"},
	{pkg: "datatype", recv: "zsetInternalKey", fn: "encodeWithScore", lean: "zsetInternalKey_encodeWithScore"},
	{pkg: "datatype", recv: "DataTypeService", fn: "Set", lean: "Set_put", dt: "putArgs"},
	{pkg: "datatype", recv: "DataTypeService", fn: "Get"},
}

// abstract parameter of a generated definition (something the Go function takes from its
// environment: a library function, the content of the file, the content of a pooled buffer)
type absParam struct {
	name string
	ty   string // Lean type
	doc  string // range / meaning, for the doc comment
}

var (
	absCrc  = absParam{"crc32_ChecksumIEEE", "ByteArray → Nat", "crc32_ChecksumIEEE _ < 2^32"}
	absFile = absParam{"file", "ByteArray", "file = the bytes of the file behind the receiver's ReadWriter"}
)

// effect table: a sequence of Go statements (metavariables M_*) ↦ an effect on the translation state.
// M_BUF must be a parameter of type *bytebufferpool.ByteBuffer, M_RECV the receiver,
// M_DATA a []byte parameter, tmps fresh variables that occur nowhere else in the function
// (checked on go/types objects), `writes` a []byte variable that the statements overwrite.
type effect struct {
	name     string
	pattern  string   // Go statements
	tmps     []string // metavariables that must be variables used only inside the match
	writes   string   // metavariable: a []byte variable (local or parameter) written by the statements
	usesFile bool     // reads the abstract parameter `file` (the bytes behind M_RECV's / M_RW's ReadWriter)
	apply    func(t *tr, b map[string]ast.Node, o *out, ind string)
}

var effects = []effect{
	{
		// n zero bytes appended to the output buffer
		name: "pad",
		pattern: `M_TMP := make([]byte, M_N)
M_BUF.B = append(M_BUF.B, M_TMP...)`,
		tmps: []string{"M_TMP"},
		apply: func(t *tr, b map[string]ast.Node, o *out, ind string) {
			t.emitSeg(o, ind, "Seg.pad "+t.natArg(b["M_N"].(ast.Expr)))
		},
	},
	{
		// one chunk (header + payload slice) appended to the output buffer
		name: "chunk",
		pattern: `M_RECV.headerBuf[6] = M_T
binary.LittleEndian.PutUint16(M_RECV.headerBuf[4:6], uint16(M_L))
M_TMP := crc32.ChecksumIEEE(M_RECV.headerBuf[4:])
M_TMP = crc32.Update(M_TMP, crc32.IEEETable, M_DATA[M_LO:M_HI])
binary.LittleEndian.PutUint32(M_RECV.headerBuf[:4], M_TMP)
_, _ = M_BUF.Write(M_RECV.headerBuf)
_, _ = M_BUF.Write(M_DATA[M_LO:M_HI])`,
		tmps: []string{"M_TMP"},
		apply: func(t *tr, b map[string]ast.Node, o *out, ind string) {
			l := b["M_L"].(ast.Expr)
			lx, lk := t.expr(l)
			len16 := t.convert(lx, lk, kind{k: kUint, bits: 16}, l)
			t.emitSeg(o, ind, "Seg.chunk "+t.natArg(b["M_T"].(ast.Expr))+" "+par(len16)+" "+
				t.natArg(b["M_LO"].(ast.Expr))+" "+t.natArg(b["M_HI"].(ast.Expr)))
		},
	},
	{
		// bytes appended to the output buffer: the function's output is the appended byte string
		name:    "append",
		pattern: `M_BUF.B = append(M_BUF.B, M_X...)`,
		apply: func(t *tr, b map[string]ast.Node, o *out, ind string) {
			x := t.bytesExpr(b["M_X"].(ast.Expr))
			t.noPending(b["M_X"])
			t.hasOut = true
			o.add(ind, "let st : "+t.leanName+".St := { st with out := st.out ++ "+opd(x)+" }")
		},
	},
	{
		// a block buffer from the pool: blockSize bytes of unspecified (stale) content, an abstract
		// parameter of the generated definition; giving it back to the pool has no visible effect
		name: "getBuf",
		pattern: `M_B := getBuf()
defer putBuf(M_B)`,
		apply: func(t *tr, b map[string]ast.Node, o *out, ind string) {
			id, ok := b["M_B"].(*ast.Ident)
			if !ok {
				failAt(b["M_B"], "effect getBuf: target is not an identifier")
			}
			if t.inLoop {
				failAt(id, "effect getBuf: defer inside a loop is outside the subset")
			}
			name := t.declare(id, kind{k: kBytes})
			a := absParam{"getBuf_" + name, "ByteArray", "getBuf_" + name + " = stale content of the pooled block buffer (blockSize bytes)"}
			t.useAbstract(a)
			o.add(ind, "let st : "+t.leanName+".St := { st with "+name+" := "+a.name+" }")
		},
	},
	{
		// positional read: fills M_B[M_LO:M_HI] with the file bytes from M_OFF on.  The error branch
		// (short read / IO error) is NOT modelled: the read is assumed to succeed completely.
		name: "read",
		pattern: `if _, M_ERR := M_RECV.ReadWriter.Read(M_B[M_LO:M_HI], M_OFF); M_ERR != nil {
	return M_ERR
}`,
		tmps:     []string{"M_ERR"},
		writes:   "M_B",
		usesFile: true,
		apply:    func(t *tr, b map[string]ast.Node, o *out, ind string) { t.applyRead(b, o, ind, false) },
	},
	{
		// (round 3) the same read in a function with a bool result (`zeroUntilEnd`); the error branch is dropped
		name: "readF",
		pattern: `if _, M_ERR := M_RECV.ReadWriter.Read(M_B[M_LO:M_HI], M_OFF); M_ERR != nil {
	return false
}`,
		tmps:     []string{"M_ERR"},
		writes:   "M_B",
		usesFile: true,
		apply:    func(t *tr, b map[string]ast.Node, o *out, ind string) { t.applyRead(b, o, ind, false) },
	},
	{
		// (round 3) the read as a plain statement whose error variable lives on (`DataReader.next`): the read is
		// assumed to succeed completely, so M_ERR becomes nil; the `if M_ERR != nil { … }` that follows in the
		// Go source is translated like any other statement.  M_RW: the receiver or a struct it points to.
		name:     "readS",
		pattern:  `_, M_ERR := M_RW.ReadWriter.Read(M_B[M_LO:M_HI], M_OFF)`,
		writes:   "M_B",
		usesFile: true,
		apply:    func(t *tr, b map[string]ast.Node, o *out, ind string) { t.applyRead(b, o, ind, true) },
	},
	{
		// (round 3) the file is cut to M_SIZE bytes; the truncation is assumed to succeed (error branch dropped).
		// The content of the file becomes a state field `file_` (initially the abstract parameter `file`) and
		// its final value the last component of the result.
		name: "truncate",
		pattern: `if M_ERR := M_RECV.ReadWriter.Truncate(M_SIZE); M_ERR != nil {
	return M_ERR
}`,
		tmps:     []string{"M_ERR"},
		usesFile: true,
		apply: func(t *tr, b map[string]ast.Node, o *out, ind string) {
			if t.inLoop {
				failAt(b["M_SIZE"], "effect truncate inside a loop is outside the subset")
			}
			x, k := t.expr(b["M_SIZE"].(ast.Expr))
			if k.k != kInt {
				failAt(b["M_SIZE"], "effect truncate: size of kind %s", k.goName())
			}
			t.noPending(b["M_SIZE"])
			t.useAbstract(absFile)
			t.r3.truncated = true
			o.add(ind, "let st : "+t.leanName+".St := { st with file_ := st.file_.extract 0 "+par(x)+".toNat }")
		},
	},
}

// primitive table: library calls ↦ Lean primitives of the prelude
type prim struct {
	pattern  string    // Go call expression with metavariables
	lean     string    // Lean function applied to the translated arguments
	args     []primArg // metavariables that become Lean arguments, in order
	res      []kind    // result kinds; two results: a Lean pair
	abstract *absParam // the Lean function is an abstract parameter of the generated definition
	write    string    // metavariable M_B: the call writes the bytes `lean args` to M_B[M_LO:] and
	//                    returns their number (Go int); M_B must be a []byte variable
}

type primArg struct {
	meta string
	k    kind
}

var (
	kI   = kind{k: kInt}
	kU16 = kind{k: kUint, bits: 16}
	kU32 = kind{k: kUint, bits: 32}
	kU64 = kind{k: kUint, bits: 64}
	kB   = kind{k: kBytes}
)

var prims = []prim{
	{pattern: "binary.LittleEndian.Uint16(M_X)", lean: "le16", args: []primArg{{"M_X", kB}}, res: []kind{kU16}},
	{pattern: "binary.LittleEndian.Uint32(M_X)", lean: "le32", args: []primArg{{"M_X", kB}}, res: []kind{kU32}},
	{pattern: "crc32.ChecksumIEEE(M_X)", lean: "crc32_ChecksumIEEE", args: []primArg{{"M_X", kB}}, res: []kind{kU32}, abstract: &absCrc},
	{pattern: "binary.Varint(M_X)", lean: "binary_Varint", args: []primArg{{"M_X", kB}}, res: []kind{kI, kI}},
	{pattern: "binary.Uvarint(M_X)", lean: "binary_Uvarint", args: []primArg{{"M_X", kB}}, res: []kind{kU64, kI}},
	{pattern: "binary.PutVarint(M_B[M_LO:], M_V)", lean: "binary_PutVarint", args: []primArg{{"M_V", kI}}, res: []kind{kI}, write: "M_B"},
	{pattern: "binary.PutUvarint(M_B[M_LO:], M_V)", lean: "binary_PutUvarint", args: []primArg{{"M_V", kU64}}, res: []kind{kI}, write: "M_B"},
}

// fixed Lean text in front of the generated definitions
const prelude = `/-! ## prelude (fixed text): integer semantics and primitives -/

/-- Go ` + "`int`/`int64`" + ` arithmetic: the exact result wrapped to 64-bit two's complement -/
def i64 (x : Int) : Int := (x + 2^63) % 2^64 - 2^63

/-- two's-complement bitwise or / and on integers (Go ` + "`|`, `&`" + ` on signed operands) -/
def ior : Int → Int → Int
  | .ofNat a, .ofNat b => .ofNat (a ||| b)
  | .ofNat a, .negSucc b => .negSucc (b ^^^ (b &&& a))
  | .negSucc a, .ofNat b => .negSucc (a ^^^ (a &&& b))
  | .negSucc a, .negSucc b => .negSucc (a &&& b)
def iand : Int → Int → Int
  | .ofNat a, .ofNat b => .ofNat (a &&& b)
  | .ofNat a, .negSucc b => .ofNat (a ^^^ (a &&& b))
  | .negSucc a, .ofNat b => .ofNat (b ^^^ (b &&& a))
  | .negSucc a, .negSucc b => .negSucc (a ||| b)

/-- ` + "`binary.LittleEndian.Uint16(b)`" + ` (Go panics when ` + "`len(b) < 2`" + `; not modelled) -/
def le16 (b : ByteArray) : Nat := (b.get! 0).toNat + 256 * (b.get! 1).toNat
/-- ` + "`binary.LittleEndian.Uint32(b)`" + ` (Go panics when ` + "`len(b) < 4`" + `; not modelled) -/
def le32 (b : ByteArray) : Nat :=
  (b.get! 0).toNat + 256 * (b.get! 1).toNat + 65536 * (b.get! 2).toNat + 16777216 * (b.get! 3).toNat

/-- ` + "`make([]byte, n)`" + `: n zero bytes (Go panics for n < 0 or n too large; not modelled) -/
def mkBytes (n : Nat) : ByteArray := ⟨Array.replicate n 0⟩

/-- overwrite ` + "`b[i : i+len(s)]`" + ` with ` + "`s`" + ` (all writes into a byte buffer: ` + "`b[i] = x`" + `, ` + "`PutUvarint(b[i:], …)`" + `,
    ` + "`Read(b[lo:hi], …)`" + `); agrees with Go when ` + "`i + len(s) ≤ len(b)`" + ` (otherwise Go panics; not modelled) -/
def putAt (b : ByteArray) (i : Nat) (s : ByteArray) : ByteArray :=
  b.extract 0 i ++ s ++ b.extract (i + s.size) b.size

/-- ` + "`copy(dst, src)`" + `: the first ` + "`min(len(dst), len(src))`" + ` bytes of dst are replaced -/
def copySlice (dst src : ByteArray) : ByteArray := src.extract 0 dst.size ++ dst.extract src.size dst.size

/-- ` + "`binary.Uvarint(b)`" + ` ↦ the model's ` + "`Varint.uvarint`" + ` (same loop as the Go source) with Go's return
    convention: ` + "`(0, 0)`" + ` when b ends inside the varint, ` + "`(0, -(i+1))`" + ` on 64-bit overflow detected at
    byte i (i = 9 when the tenth byte is < 0x80 but > 1, i = 10 when the first ten bytes all have the
    continuation bit) -/
def binary_Uvarint (b : ByteArray) : Nat × Int :=
  match XixiKV.Varint.uvarint b.data.toList with
  | some (x, n) => (x, (n : Int))
  | none => (0, if (b.get! 9).toNat < 128 then -10 else -11)

/-- ` + "`binary.Varint(b)`" + `: zig-zag decoding on top of ` + "`Uvarint`" + `, as in the Go source
    (` + "`x := int64(ux >> 1); if ux&1 != 0 { x = ^x }`" + `) -/
def binary_Varint (b : ByteArray) : Int × Int :=
  let r := binary_Uvarint b
  (if r.1 % 2 = 0 then ((r.1 / 2 : Nat) : Int) else -((r.1 / 2 : Nat) : Int) - 1, r.2)

/-- the bytes ` + "`binary.PutUvarint(buf, x)`" + ` writes (x < 2^64) ↦ the model's ` + "`Varint.putUvarint`" + ` -/
def binary_PutUvarint (x : Nat) : ByteArray := ⟨(XixiKV.Varint.putUvarint x).toArray⟩

/-- the bytes ` + "`binary.PutVarint(buf, x)`" + ` writes: zig-zag (` + "`ux := uint64(x) << 1; if x < 0 { ux = ^ux }`" + `) -/
def binary_PutVarint (x : Int) : ByteArray :=
  binary_PutUvarint (if 0 ≤ x then (2 * x).toNat else (-2 * x - 1).toNat)

/-- how a loop body ends: falls through / ` + "`continue`" + `, ` + "`break`" + `, or ` + "`return v`" + ` -/
inductive Ctl (σ ρ : Type) where
  | next (st : σ)
  | brk (st : σ)
  | ret (v : ρ)
  /-- the fuel of a loop of a called function, or of a loop nested in the body, was exhausted: never a Go result -/
  | fail

/-- one step of a loop whose body ended with ` + "`c`" + `: run the remaining iterations ` + "`k`" + `, leave the loop
    (` + "`.inl st`" + `), or return from the function (` + "`.inr v`" + `) -/
def Ctl.step {σ ρ : Type} (c : Ctl σ ρ) (k : σ → Option (σ ⊕ ρ)) : Option (σ ⊕ ρ) :=
  match c with
  | .next st => k st
  | .brk st => some (.inl st)
  | .ret v => some (.inr v)
  | .fail => none

/-- inside a loop body: the value of a call of a translated function that has a loop itself
    (` + "`none`" + ` = its fuel was exhausted, which makes the whole result ` + "`none`" + `) -/
def Ctl.call {α σ ρ : Type} (r : Option α) (k : α → Ctl σ ρ) : Ctl σ ρ :=
  match r with
  | none => .fail
  | some a => k a

/-- inside a loop body: what follows a nested (` + "`range`" + `) loop: ` + "`return v`" + ` inside it returns from the function,
    otherwise the rest of the enclosing body ` + "`k`" + ` runs in the state the nested loop was left in -/
def Ctl.sub {σ ρ : Type} (r : Option (σ ⊕ ρ)) (k : σ → Ctl σ ρ) : Ctl σ ρ :=
  match r with
  | none => .fail
  | some (.inr v) => .ret v
  | some (.inl st) => k st

/-- what follows such a loop: fuel exhausted ↦ ` + "`none`" + `, ` + "`return v`" + ` inside the loop ↦ ` + "`some v`" + `, loop left in
    state st ↦ the rest of the function ` + "`k st`" + `.  (A function, not a ` + "`match`" + ` on the loop: tactics that meet
    a ` + "`match`" + ` on ` + "`loop (n+1) st`" + ` try to evaluate the loop symbolically.) -/
def Ctl.after {σ ρ : Type} (r : Option (σ ⊕ ρ)) (k : σ → Option ρ) : Option ρ :=
  match r with
  | none => none
  | some (.inr v) => some v
  | some (.inl st) => k st

/-- what a translated function appends to its output buffer, in order -/
inductive Seg where
  /-- ` + "`buf.B = append(buf.B, make([]byte, n)...)`" + `: n zero bytes -/
  | pad (n : Nat)
  /-- one chunk: header (crc32 of the following, len16, typ) followed by ` + "`data[lo:hi]`" + ` -/
  | chunk (typ len16 lo hi : Nat)
deriving Repr, DecidableEq
`

// ---------------------------------------------------------------------------------------------
// errors
// ---------------------------------------------------------------------------------------------

var fset = token.NewFileSet()

type unsupported struct{ msg string }

func failAt(n ast.Node, format string, args ...interface{}) {
	pos := ""
	if n != nil {
		pos = fset.Position(n.Pos()).String() + ": "
	}
	panic(unsupported{pos + fmt.Sprintf(format, args...)})
}

func src(n ast.Node) string {
	var sb strings.Builder
	printer.Fprint(&sb, fset, n)
	return strings.Join(strings.Fields(sb.String()), " ")
}

// ---------------------------------------------------------------------------------------------
// kinds
// ---------------------------------------------------------------------------------------------

const (
	kInt  = iota // int, int64: Lean Int, every + - * wrapped by i64
	kUint        // uintN: Lean Nat below 2^bits
	kBool
	kBytes
	kStruct
	kErr
)

type kind struct {
	k    int
	bits int    // kUint
	name string // kStruct: Lean structure name
}

func (k kind) lean() string {
	switch k.k {
	case kInt:
		return "Int"
	case kUint:
		return "Nat"
	case kBool:
		return "Bool" // parameters (receiver fields) and results; inside conditions bools are Props `(x = true)`
	case kBytes:
		return "ByteArray"
	case kStruct:
		return k.name
	case kErr:
		return "Option String"
	}
	return "?"
}

func (k kind) goName() string {
	switch k.k {
	case kInt:
		return "int/int64"
	case kUint:
		return fmt.Sprintf("uint%d", k.bits)
	case kBool:
		return "bool"
	case kBytes:
		return "[]byte"
	case kStruct:
		return k.name
	case kErr:
		return "error"
	}
	return "?"
}

func (k kind) isInt() bool { return k.k == kInt || k.k == kUint }

// ---------------------------------------------------------------------------------------------
// package loading
// ---------------------------------------------------------------------------------------------

type pkgInfo struct {
	dir   string
	name  string
	files []*ast.File
	info  *types.Info
	tpkg  *types.Package
	funcs map[string]*ast.FuncDecl // "Recv.name" or "name"
	dups  map[string]bool          // declared more than once (build constraints are ignored)

	fns        map[string]*fnInfo // translated functions, by "Recv.name" / "name"
	consts     map[string]string  // used named constants -> value
	constOrder []string
	structs    map[string][]field // used struct types
	structOrd  []string
	defs       []string // generated Lean text per function
}

type field struct {
	name string
	k    kind
}

// importer that never fails: packages that cannot be loaded from source (third-party modules
// without a module cache, cgo, …) become empty packages; anything that needs a type from them is
// then rejected by the translator because its type is invalid.
type lenientImporter struct{ inner types.ImporterFrom }

func (l lenientImporter) Import(path string) (*types.Package, error) {
	return l.ImportFrom(path, "", 0)
}
func (l lenientImporter) ImportFrom(path, dir string, mode types.ImportMode) (p *types.Package, err error) {
	defer func() {
		if r := recover(); r != nil || err != nil || p == nil {
			base := path
			if i := strings.LastIndex(path, "/"); i >= 0 {
				base = path[i+1:]
			}
			p = types.NewPackage(path, base)
			p.MarkComplete()
			err = nil
		}
	}()
	return l.inner.ImportFrom(path, dir, mode)
}

func loadPkg(repo, dir string) *pkgInfo {
	full := filepath.Join(repo, dir)
	pkgs, err := parser.ParseDir(fset, full, func(fi os.FileInfo) bool {
		return !strings.HasSuffix(fi.Name(), "_test.go")
	}, parser.ParseComments)
	if err != nil {
		fmt.Fprintln(os.Stderr, "trans:", err)
		os.Exit(1)
	}
	var names []string
	for n := range pkgs {
		names = append(names, n)
	}
	sort.Strings(names)
	if len(names) != 1 {
		fmt.Fprintf(os.Stderr, "trans: %s: expected exactly one package, found %v\n", full, names)
		os.Exit(1)
	}
	p := pkgs[names[0]]
	var fnames []string
	for n := range p.Files {
		fnames = append(fnames, n)
	}
	sort.Strings(fnames)
	pi := &pkgInfo{dir: dir, name: names[0], funcs: map[string]*ast.FuncDecl{}, dups: map[string]bool{}, fns: map[string]*fnInfo{}, consts: map[string]string{}, structs: map[string][]field{}}
	for _, n := range fnames {
		pi.files = append(pi.files, p.Files[n])
	}
	abs, _ := filepath.Abs(full)
	conf := types.Config{
		Error:       func(error) {},
		Importer:    lenientImporter{importer.ForCompiler(fset, "source", nil).(types.ImporterFrom)},
		FakeImportC: true,
	}
	_ = abs
	pi.info = &types.Info{
		Types: map[ast.Expr]types.TypeAndValue{},
		Defs:  map[*ast.Ident]types.Object{},
		Uses:  map[*ast.Ident]types.Object{},
	}
	pi.tpkg, _ = conf.Check(names[0], fset, pi.files, pi.info)
	for _, f := range pi.files {
		for _, d := range f.Decls {
			if fd, ok := d.(*ast.FuncDecl); ok && fd.Body != nil {
				key := fd.Name.Name
				if fd.Recv != nil && len(fd.Recv.List) == 1 {
					key = strings.TrimPrefix(src(fd.Recv.List[0].Type), "*") + "." + key
				}
				if _, dup := pi.funcs[key]; dup {
					pi.dups[key] = true // e.g. per-platform files: ParseDir ignores build constraints
				}
				pi.funcs[key] = fd
			}
		}
	}
	return pi
}

// ---------------------------------------------------------------------------------------------
// AST pattern matching for the tables
// ---------------------------------------------------------------------------------------------

func parseStmts(s string) []ast.Stmt {
	f, err := parser.ParseFile(token.NewFileSet(), "pattern.go", "package p\nfunc _() {\n"+s+"\n}", 0)
	if err != nil {
		panic(err)
	}
	return f.Decls[0].(*ast.FuncDecl).Body.List
}

func parseExpr(s string) ast.Expr {
	e, err := parser.ParseExpr(s)
	if err != nil {
		panic(err)
	}
	return e
}

func isMeta(n string) bool { return strings.HasPrefix(n, "M_") }

// match: structural equality of pattern and node, pattern identifiers M_* bind sub-trees
// (a second occurrence must match the first binding exactly)
func match(p, n ast.Node, b map[string]ast.Node) bool {
	if pe, ok := p.(ast.Expr); ok {
		if id, ok := pe.(*ast.Ident); ok && isMeta(id.Name) {
			ne, ok := n.(ast.Expr)
			if !ok {
				return false
			}
			if old, ok := b[id.Name]; ok {
				return match(old, ne, map[string]ast.Node{})
			}
			b[id.Name] = ne
			return true
		}
	}
	if p == nil || n == nil {
		return p == nil && n == nil
	}
	isNilExpr := func(e ast.Expr) bool { return e == nil }
	switch pv := p.(type) {
	case *ast.Ident:
		nv, ok := n.(*ast.Ident)
		return ok && pv.Name == nv.Name
	case *ast.BasicLit:
		nv, ok := n.(*ast.BasicLit)
		return ok && pv.Kind == nv.Kind && pv.Value == nv.Value
	case *ast.ParenExpr:
		nv, ok := n.(*ast.ParenExpr)
		return ok && match(pv.X, nv.X, b)
	case *ast.SelectorExpr:
		nv, ok := n.(*ast.SelectorExpr)
		return ok && pv.Sel.Name == nv.Sel.Name && match(pv.X, nv.X, b)
	case *ast.IndexExpr:
		nv, ok := n.(*ast.IndexExpr)
		return ok && match(pv.X, nv.X, b) && match(pv.Index, nv.Index, b)
	case *ast.SliceExpr:
		nv, ok := n.(*ast.SliceExpr)
		if !ok || pv.Slice3 || nv.Slice3 {
			return false
		}
		if isNilExpr(pv.Low) != isNilExpr(nv.Low) || isNilExpr(pv.High) != isNilExpr(nv.High) {
			return false
		}
		if !match(pv.X, nv.X, b) {
			return false
		}
		if pv.Low != nil && !match(pv.Low, nv.Low, b) {
			return false
		}
		if pv.High != nil && !match(pv.High, nv.High, b) {
			return false
		}
		return true
	case *ast.CallExpr:
		nv, ok := n.(*ast.CallExpr)
		if !ok || len(pv.Args) != len(nv.Args) || (pv.Ellipsis != token.NoPos) != (nv.Ellipsis != token.NoPos) {
			return false
		}
		if !match(pv.Fun, nv.Fun, b) {
			return false
		}
		for i := range pv.Args {
			if !match(pv.Args[i], nv.Args[i], b) {
				return false
			}
		}
		return true
	case *ast.BinaryExpr:
		nv, ok := n.(*ast.BinaryExpr)
		return ok && pv.Op == nv.Op && match(pv.X, nv.X, b) && match(pv.Y, nv.Y, b)
	case *ast.UnaryExpr:
		nv, ok := n.(*ast.UnaryExpr)
		return ok && pv.Op == nv.Op && match(pv.X, nv.X, b)
	case *ast.StarExpr:
		nv, ok := n.(*ast.StarExpr)
		return ok && match(pv.X, nv.X, b)
	case *ast.ArrayType:
		nv, ok := n.(*ast.ArrayType)
		if !ok || (pv.Len == nil) != (nv.Len == nil) {
			return false
		}
		if pv.Len != nil && !match(pv.Len, nv.Len, b) {
			return false
		}
		return match(pv.Elt, nv.Elt, b)
	case *ast.AssignStmt:
		nv, ok := n.(*ast.AssignStmt)
		if !ok || pv.Tok != nv.Tok || len(pv.Lhs) != len(nv.Lhs) || len(pv.Rhs) != len(nv.Rhs) {
			return false
		}
		for i := range pv.Lhs {
			if !match(pv.Lhs[i], nv.Lhs[i], b) {
				return false
			}
		}
		for i := range pv.Rhs {
			if !match(pv.Rhs[i], nv.Rhs[i], b) {
				return false
			}
		}
		return true
	case *ast.ExprStmt:
		nv, ok := n.(*ast.ExprStmt)
		return ok && match(pv.X, nv.X, b)
	case *ast.DeferStmt:
		nv, ok := n.(*ast.DeferStmt)
		return ok && match(pv.Call, nv.Call, b)
	case *ast.ReturnStmt:
		nv, ok := n.(*ast.ReturnStmt)
		if !ok || len(pv.Results) != len(nv.Results) {
			return false
		}
		for i := range pv.Results {
			if !match(pv.Results[i], nv.Results[i], b) {
				return false
			}
		}
		return true
	case *ast.BlockStmt:
		nv, ok := n.(*ast.BlockStmt)
		if !ok || len(pv.List) != len(nv.List) {
			return false
		}
		for i := range pv.List {
			if !match(pv.List[i], nv.List[i], b) {
				return false
			}
		}
		return true
	case *ast.IfStmt:
		nv, ok := n.(*ast.IfStmt)
		if !ok || (pv.Init == nil) != (nv.Init == nil) || (pv.Else == nil) != (nv.Else == nil) {
			return false
		}
		if pv.Init != nil && !match(pv.Init, nv.Init, b) {
			return false
		}
		if pv.Else != nil && !match(pv.Else, nv.Else, b) {
			return false
		}
		return match(pv.Cond, nv.Cond, b) && match(pv.Body, nv.Body, b)
	}
	return false
}

// rootIdent: the variable a (possibly sliced / parenthesised) []byte expression is a view of
func rootIdent(e ast.Expr) *ast.Ident {
	for {
		switch v := e.(type) {
		case *ast.ParenExpr:
			e = v.X
		case *ast.SliceExpr:
			e = v.X
		case *ast.Ident:
			return v
		case *ast.SelectorExpr:
			return v.Sel // (round 3) a []byte struct field: go/types maps the selector identifier to the field object
		default:
			return nil
		}
	}
}

func countIdent(root ast.Node, name string) int {
	c := 0
	ast.Inspect(root, func(n ast.Node) bool {
		if id, ok := n.(*ast.Ident); ok && id.Name == name {
			c++
		}
		return true
	})
	return c
}

// ---------------------------------------------------------------------------------------------
// translator for one function
// ---------------------------------------------------------------------------------------------

// translated expression: atom (identifier, literal, parenthesised), app (function application
// `f x y`), or anything else (infix)
type lx struct {
	s    string
	atom bool
	app  bool
}

// par: as an argument of a function application
func par(x lx) string {
	if x.atom {
		return x.s
	}
	return "(" + x.s + ")"
}

// opd: as an operand of an infix operator (application binds tighter than every infix operator)
func opd(x lx) string {
	if x.atom || x.app {
		return x.s
	}
	return "(" + x.s + ")"
}

func app(s string) lx { return lx{s: s, app: true} }

type local struct {
	name string // Lean field name
	k    kind
	obj  types.Object
}

type param struct {
	goName string
	name   string
	k      kind
	mut    bool   // assigned (or, for []byte, written) in the body: lives in the state structure
	field  string // receiver field parameters: the Go field name (round 3: a path `dataFile.lastBlockID`)
	ord    int    // receiver field parameters: position in the struct declaration (order of the result components)
}

type tr struct {
	p        *pkgInfo
	sp       spec
	fd       *ast.FuncDecl
	leanName string
	recvName string
	recvObj  types.Object

	params     []param // translatable Go parameters, in order
	paramByObj map[types.Object]int
	skipped    map[types.Object]string // parameters outside the subset: any generic use is an error
	recvFields []param                 // receiver fields read, in first-use order
	abstract   []absParam              // abstract parameters used, in first-use order
	locals     []local
	localByObj map[types.Object]int
	localNames map[string]bool
	results    []kind
	hasLoop    bool
	hasEffects bool     // emits segments (List Seg)
	hasOut     bool     // appends bytes to its output buffer (ByteArray)
	loops      []string // generated helper definitions
	nloop      int
	inLoop     bool // translating a loop body in Ctl mode (return / break / continue allowed)

	written map[types.Object]bool // []byte variables that are written (index assignment, copy, write primitives, read effect)
	pending []pendingWrite        // writes of the write primitives met in the current simple statement

	r4fuel string // round 4 (round4.go): fuel of the counted loop that is translated next
	r3 round3 // round 3 (round3.go): written receiver fields, nested range loops, calls of functions with loops
}

// a write primitive met while translating the expressions of a simple statement: the statement's
// state update also sets `name := rhs` (evaluated in the old state, like everything else)
type pendingWrite struct {
	name string
	rhs  string
	at   ast.Node
}

// fnInfo: what a later function needs to know to call an already translated one
type fnInfo struct {
	leanName   string
	abstract   []absParam
	recvFields []param
	params     []param
	nparams    int // number of Go parameters (all of them must be translatable for a call)
	results    []kind
	callable   bool // no loop, no effects: the generated definition returns exactly the Go results
	loopy      bool // round 3: like callable, but with a loop: the definition returns `Option results`
	usesFile   bool // round 3: reads the file behind its receiver's ReadWriter
}

var leanReserved = map[string]bool{
	"end": true, "from": true, "at": true, "have": true, "show": true, "then": true, "else": true, "do": true,
	"in": true, "let": true, "fun": true, "if": true, "match": true, "with": true, "where": true, "by": true,
	"def": true, "theorem": true, "open": true, "namespace": true, "section": true, "structure": true,
	"instance": true, "class": true, "inductive": true, "deriving": true, "import": true, "mutual": true,
	"st": true, "fuel": true, "segs": true, "some": true, "none": true, "min": true, "max": true, "Type": true,
	"Prop": true, "Sort": true, "forall": true, "exists": true, "using": true, "extends": true, "return": true,
	"for": true, "unless": true, "try": true, "catch": true, "finally": true, "mut": true, "macro": true,
	"syntax": true, "notation": true, "variable": true, "universe": true, "example": true, "axiom": true,
	"opaque": true, "abbrev": true, "private": true, "protected": true, "noncomputable": true, "partial": true,
	"unsafe": true, "nomatch": true, "nofun": true, "suffices": true, "calc": true, "this": true,
	"out": true, "rv": true, "v": true, "file": true,
}

// names the translator generates itself: rng (range loops), cv<i> (hoisted calls), k<i> (join points)
var genNameRe = regexp.MustCompile(`^(rng|cv[0-9]+|k[0-9]+)$`)

func mangle(n string) string {
	if leanReserved[n] || genNameRe.MatchString(n) {
		return n + "_"
	}
	return n
}

func (t *tr) kindOf(ty types.Type, at ast.Node) kind {
	if ty == nil {
		failAt(at, "no type information for %s", src(at))
	}
	ty = types.Unalias(ty)
	if ptr, ok := ty.(*types.Pointer); ok {
		if _, ok := types.Unalias(ptr.Elem()).Underlying().(*types.Struct); ok {
			return t.kindOf(ptr.Elem(), at)
		}
	}
	if named, ok := ty.(*types.Named); ok {
		if named.Obj().Pkg() == nil && named.Obj().Name() == "error" {
			return kind{k: kErr}
		}
		if st, ok := named.Underlying().(*types.Struct); ok {
			if named.Obj().Pkg() != t.p.tpkg {
				failAt(at, "struct type %s of another package is outside the subset", ty)
			}
			name := named.Obj().Name()
			if _, done := t.p.structs[name]; !done {
				var fs []field
				for i := 0; i < st.NumFields(); i++ {
					fk := t.kindOf(st.Field(i).Type(), at)
					if !fk.isInt() && fk.k != kBytes {
						failAt(at, "struct %s: field %s has type %s (neither integer nor []byte)", name, st.Field(i).Name(), st.Field(i).Type())
					}
					fs = append(fs, field{st.Field(i).Name(), fk})
				}
				t.p.structs[name] = fs
				t.p.structOrd = append(t.p.structOrd, name)
			}
			return kind{k: kStruct, name: name}
		}
	}
	switch u := ty.Underlying().(type) {
	case *types.Basic:
		switch u.Kind() {
		case types.Int, types.Int64, types.UntypedInt:
			return kind{k: kInt}
		case types.Uint8:
			return kind{k: kUint, bits: 8}
		case types.Uint16:
			return kind{k: kUint, bits: 16}
		case types.Uint32:
			return kind{k: kUint, bits: 32}
		case types.Uint64, types.Uint:
			return kind{k: kUint, bits: 64}
		case types.Bool, types.UntypedBool:
			return kind{k: kBool}
		}
	case *types.Slice:
		if b, ok := types.Unalias(u.Elem()).Underlying().(*types.Basic); ok && b.Kind() == types.Uint8 {
			return kind{k: kBytes}
		}
	}
	failAt(at, "type %s of %s is outside the subset", ty, src(at))
	return kind{}
}

func (t *tr) typeOfExpr(e ast.Expr) types.Type {
	tv, ok := t.p.info.Types[e]
	if !ok || tv.Type == nil {
		return nil
	}
	if b, ok := tv.Type.(*types.Basic); ok && b.Kind() == types.Invalid {
		return nil
	}
	return tv.Type
}

func zero(t *tr, k kind) string {
	switch k.k {
	case kInt, kUint:
		return "0"
	case kBytes:
		return "ByteArray.empty"
	case kErr:
		return "none"
	case kStruct:
		var parts []string
		for _, f := range t.p.structs[k.name] {
			parts = append(parts, mangle(f.name)+" := "+zero(t, f.k))
		}
		return "{ " + strings.Join(parts, ", ") + " }"
	}
	return "?"
}

func pow2(bits int) string { return fmt.Sprintf("2^%d", bits) }

// natArg: translate an integer expression used as a natural number (length, index, segment field)
func (t *tr) natArg(e ast.Expr) string {
	if tv, ok := t.p.info.Types[e]; ok && tv.Value != nil && tv.Value.Kind() == constant.Int && constant.Sign(tv.Value) >= 0 {
		if _, isLit := ast.Unparen(e).(*ast.BasicLit); isLit {
			return tv.Value.ExactString()
		}
		if _, isId := ast.Unparen(e).(*ast.Ident); !isId {
			// a folded constant expression (dt.go: `make([]byte, binary.MaxVarintLen64+1)`); t.expr would print an
			// untyped literal, on which `.toNat` does not elaborate
			return "(" + tv.Value.ExactString() + " /- " + src(e) + " -/)"
		}
	}
	x, k := t.expr(e)
	switch k.k {
	case kUint:
		return par(x)
	case kInt:
		return par(x) + ".toNat"
	}
	failAt(e, "integer expression expected, found %s of kind %s", src(e), k.goName())
	return ""
}

// convert a translated value to another integer kind (Go conversion T(e))
func (t *tr) convert(x lx, from, to kind, at ast.Node) lx {
	if !from.isInt() || !to.isInt() {
		failAt(at, "conversion from %s to %s is outside the subset", from.goName(), to.goName())
	}
	switch {
	case from.k == kInt && to.k == kInt:
		return x // int <-> int64: identity (64-bit platform)
	case from.k == kUint && to.k == kInt:
		// the operand is elaborated as a Nat first (a bare `(e : Int)` would push the coercion to the
		// leaves of e and evaluate e's truncated subtractions in Int)
		c := "(" + x.s + " : Int)"
		if !x.atom {
			c = "((" + x.s + " : Nat) : Int)"
		}
		if from.bits < 64 {
			return lx{s: c, atom: true}
		}
		return app("i64 " + c)
	case from.k == kInt && to.k == kUint:
		return lx{s: "(" + par(x) + " % " + pow2(to.bits) + ").toNat", atom: true}
	default: // unsigned to unsigned
		if to.bits >= from.bits {
			return x
		}
		return lx{s: opd(x) + " % " + pow2(to.bits)}
	}
}

func (t *tr) constant(e ast.Expr, tv types.TypeAndValue) (lx, kind) {
	k := t.kindOf(tv.Type, e)
	if k.k == kBool {
		if constant.BoolVal(tv.Value) {
			return lx{s: "True", atom: true}, k
		}
		return lx{s: "False", atom: true}, k
	}
	if tv.Value.Kind() != constant.Int {
		failAt(e, "non-integer constant %s", src(e))
	}
	val := tv.Value.ExactString()
	neg := constant.Sign(tv.Value) < 0
	// a named constant of this package: reference a generated definition
	if id, ok := ast.Unparen(e).(*ast.Ident); ok && !neg {
		if c, ok := t.p.info.Uses[id].(*types.Const); ok && c.Pkg() == t.p.tpkg && c.Parent() == t.p.tpkg.Scope() {
			if _, done := t.p.consts[id.Name]; !done {
				t.p.consts[id.Name] = c.Val().ExactString()
				t.p.constOrder = append(t.p.constOrder, id.Name)
			}
			if k.k == kInt {
				return lx{s: "(" + mangle(id.Name) + " : Int)", atom: true}, k
			}
			return lx{s: mangle(id.Name), atom: true}, k
		}
	}
	s := val
	_, isLit := ast.Unparen(e).(*ast.BasicLit)
	if neg {
		return lx{s: "(" + val + " : Int)", atom: true}, k
	}
	if !isLit {
		s = val + " /- " + src(e) + " -/"
		return lx{s: "(" + s + ")", atom: true}, k
	}
	// literals may be written in hex/octal: always print the decimal value
	return lx{s: s, atom: true}, k
}

func (t *tr) useAbstract(a absParam) {
	for _, b := range t.abstract {
		if b.name == a.name {
			if b.ty != a.ty {
				failAt(t.fd, "abstract parameter %s used at two types", a.name)
			}
			return
		}
	}
	for _, p := range t.params {
		if p.name == a.name {
			failAt(t.fd, "parameter %s clashes with an abstract parameter", a.name)
		}
	}
	if t.localNames[a.name] {
		failAt(t.fd, "local %s clashes with an abstract parameter", a.name)
	}
	t.abstract = append(t.abstract, a)
}

// noPending: write primitives are only allowed inside simple assignment statements
func (t *tr) noPending(at ast.Node) {
	if len(t.pending) > 0 {
		failAt(at, "a call that writes into a buffer (%s) is only supported in a plain assignment statement", src(t.pending[0].at))
	}
}

// writeTarget: a []byte variable (local, or parameter marked as written) used as the destination of a write
func (t *tr) writeTarget(e ast.Expr) (name string, cur string) {
	if path, ord, ok := t.recvPath(ast.Unparen(e)); ok {
		// (round 3) a []byte field of the receiver
		x, k := t.recvFieldExpr(ast.Unparen(e).(*ast.SelectorExpr), path, ord)
		if k.k != kBytes || !strings.HasPrefix(x.s, "st.") {
			failAt(e, "write destination %s is not a written []byte field of the receiver", src(e))
		}
		return strings.TrimPrefix(x.s, "st."), x.s
	}
	id, ok := ast.Unparen(e).(*ast.Ident)
	if !ok {
		failAt(e, "write destination %s is not a variable", src(e))
	}
	obj := t.p.info.Uses[id]
	if !t.written[obj] {
		failAt(e, "internal: %s was not recognised as a written buffer by the pre-scan", id.Name)
	}
	if i, ok := t.localByObj[obj]; ok && t.locals[i].k.k == kBytes {
		return t.locals[i].name, "st." + t.locals[i].name
	}
	if i, ok := t.paramByObj[obj]; ok && t.params[i].k.k == kBytes && t.params[i].mut {
		return t.params[i].name, "st." + t.params[i].name
	}
	failAt(e, "write destination %s is not a []byte variable", src(e))
	return
}

func (t *tr) bytesExpr(e ast.Expr) lx {
	x, k := t.expr(e)
	if k.k != kBytes {
		failAt(e, "[]byte expression expected, found %s", src(e))
	}
	return x
}

var arithLean = map[token.Token]string{token.ADD: "+", token.SUB: "-", token.MUL: "*"}
var cmpLean = map[token.Token]string{token.EQL: "=", token.NEQ: "≠", token.LSS: "<", token.LEQ: "≤", token.GTR: ">", token.GEQ: "≥"}

// binary integer operation on translated operands; yExpr is the Go right operand (constant checks)
func (t *tr) arith(op token.Token, x lx, kx kind, y lx, ky kind, yExpr ast.Expr, at ast.Node) (lx, kind) {
	if op == token.SHL || op == token.SHR {
		tv := t.p.info.Types[yExpr]
		if tv.Value == nil || tv.Value.Kind() != constant.Int || constant.Sign(tv.Value) < 0 {
			failAt(at, "shift count must be a non-negative constant: %s", src(at))
		}
		n := tv.Value.ExactString()
		if !kx.isInt() {
			failAt(at, "shift of a non-integer: %s", src(at))
		}
		if op == token.SHR {
			return lx{s: opd(x) + " >>> " + n}, kx // Nat: logical; Int: arithmetic (floor), as in Go
		}
		if kx.k == kUint {
			return lx{s: "(" + opd(x) + " <<< " + n + ") % " + pow2(kx.bits)}, kx
		}
		return app("i64 (" + opd(x) + " * 2^" + n + ")"), kx
	}
	if kx != ky || !kx.isInt() {
		failAt(at, "operands of %s have kinds %s and %s: %s", op, kx.goName(), ky.goName(), src(at))
	}
	switch op {
	case token.ADD, token.MUL:
		s := opd(x) + " " + arithLean[op] + " " + opd(y)
		if kx.k == kInt {
			return app("i64 (" + s + ")"), kx
		}
		return lx{s: "(" + s + ") % " + pow2(kx.bits)}, kx
	case token.SUB:
		if kx.k == kInt {
			return app("i64 (" + opd(x) + " - " + opd(y) + ")"), kx
		}
		return lx{s: "(" + opd(x) + " + " + pow2(kx.bits) + " - " + opd(y) + ") % " + pow2(kx.bits)}, kx
	case token.QUO, token.REM:
		tv := t.p.info.Types[yExpr]
		if tv.Value == nil || tv.Value.Kind() != constant.Int || constant.Sign(tv.Value) == 0 {
			failAt(at, "divisor must be a non-zero constant (division by zero panics are not modelled): %s", src(at))
		}
		if kx.k == kInt {
			if v, ok := constant.Int64Val(tv.Value); ok && v == -1 {
				failAt(at, "division by -1 can overflow: %s", src(at))
			}
			f := "Int.tdiv" // Go truncates towards zero
			if op == token.REM {
				f = "Int.tmod"
			}
			return app(f + " " + par(x) + " " + par(y)), kx
		}
		o := "/"
		if op == token.REM {
			o = "%"
		}
		return lx{s: opd(x) + " " + o + " " + opd(y)}, kx
	case token.OR, token.AND:
		if kx.k == kInt {
			f := "ior"
			if op == token.AND {
				f = "iand"
			}
			return app(f + " " + par(x) + " " + par(y)), kx
		}
		o := "|||"
		if op == token.AND {
			o = "&&&"
		}
		return lx{s: opd(x) + " " + o + " " + opd(y)}, kx
	}
	failAt(at, "operator %s is outside the subset: %s", op, src(at))
	return lx{}, kind{}
}

func (t *tr) expr(e ast.Expr) (lx, kind) {
	if pe, ok := e.(*ast.ParenExpr); ok {
		return t.expr(pe.X)
	}
	tv, hasTV := t.p.info.Types[e]
	if hasTV && tv.Value != nil && tv.Type != nil {
		return t.constant(e, tv)
	}
	switch v := e.(type) {
	case *ast.BasicLit:
		failAt(e, "literal %s without type information", v.Value)
	case *ast.Ident:
		obj := t.p.info.Uses[v]
		if obj == nil {
			failAt(e, "unresolved identifier %s", v.Name)
		}
		if i, ok := t.localByObj[obj]; ok {
			l := t.locals[i]
			return lx{s: "st." + l.name, atom: true}, l.k
		}
		if i, ok := t.paramByObj[obj]; ok {
			p := t.params[i]
			if p.mut {
				return lx{s: "st." + p.name, atom: true}, p.k
			}
			return lx{s: p.name, atom: true}, p.k
		}
		if why, ok := t.skipped[obj]; ok {
			failAt(e, "use of parameter %s (%s) outside the effect table", v.Name, why)
		}
		if vr, ok := obj.(*types.Var); ok && vr.Parent() == t.p.tpkg.Scope() {
			if k := t.kindOf(vr.Type(), e); k.k == kErr {
				return app("some \"" + v.Name + "\""), k
			}
			failAt(e, "package level variable %s is outside the subset", v.Name)
		}
		failAt(e, "identifier %s is outside the subset", v.Name)
	case *ast.SelectorExpr:
		// field of the receiver (round 3: also of a struct the receiver points to, `reader.dataFile.ID`;
		// integer, bool or []byte): extra parameter, a state field when the function assigns / writes it
		if path, ord, ok := t.recvPath(e); ok {
			return t.recvFieldExpr(e, path, ord)
		}
		if id, ok := v.X.(*ast.Ident); ok {
			obj := t.p.info.Uses[id]
			// field of a struct local
			if i, ok := t.localByObj[obj]; ok && t.locals[i].k.k == kStruct {
				for _, f := range t.p.structs[t.locals[i].k.name] {
					if f.name == v.Sel.Name {
						return lx{s: "st." + t.locals[i].name + "." + mangle(f.name), atom: true}, f.k
					}
				}
			}
			// field of a struct (pointer) parameter: read only
			if i, ok := t.paramByObj[obj]; ok && t.params[i].k.k == kStruct {
				for _, f := range t.p.structs[t.params[i].k.name] {
					if f.name == v.Sel.Name {
						return lx{s: t.params[i].name + "." + mangle(f.name), atom: true}, f.k
					}
				}
			}
			// error variable of an imported package (io.EOF)
			if _, isPkg := obj.(*types.PkgName); isPkg {
				if vr, ok := t.p.info.Uses[v.Sel].(*types.Var); ok {
					if k := t.kindOf(vr.Type(), e); k.k == kErr {
						return app("some \"" + id.Name + "." + v.Sel.Name + "\""), k
					}
				}
			}
		}
		failAt(e, "selector %s is outside the subset", src(e))
	case *ast.UnaryExpr:
		switch v.Op {
		case token.NOT:
			x, k := t.expr(v.X)
			if k.k != kBool {
				failAt(e, "! of non-bool")
			}
			return lx{s: "¬ " + opd(x)}, k
		case token.AND:
			if cl, ok := v.X.(*ast.CompositeLit); ok {
				return t.expr(cl)
			}
		}
		failAt(e, "unary operator %s is outside the subset: %s", v.Op, src(e))
	case *ast.CompositeLit:
		ty := t.typeOfExpr(e)
		k := t.kindOf(ty, e)
		if k.k != kStruct {
			failAt(e, "composite literal of non-struct type: %s", src(e))
		}
		fs := t.p.structs[k.name]
		vals := map[string]string{}
		for _, el := range v.Elts {
			kv, ok := el.(*ast.KeyValueExpr)
			if !ok {
				failAt(el, "positional struct literal is outside the subset")
			}
			key, ok := kv.Key.(*ast.Ident)
			if !ok {
				failAt(el, "struct literal key")
			}
			var fk *field
			for i := range fs {
				if fs[i].name == key.Name {
					fk = &fs[i]
				}
			}
			if fk == nil {
				failAt(el, "unknown field %s", key.Name)
			}
			x := t.exprWant(kv.Value, fk.k)
			vals[key.Name] = x.s
		}
		var parts []string
		for _, f := range fs {
			val, ok := vals[f.name]
			if !ok {
				val = zero(t, f.k)
			}
			parts = append(parts, mangle(f.name)+" := "+val)
		}
		return lx{s: "{ " + strings.Join(parts, ", ") + " }", atom: true}, k
	case *ast.BinaryExpr:
		switch v.Op {
		case token.LAND, token.LOR:
			x, kx := t.expr(v.X)
			y, ky := t.expr(v.Y)
			if kx.k != kBool || ky.k != kBool {
				failAt(e, "logical operator on non-bool: %s", src(e))
			}
			o := "∧"
			if v.Op == token.LOR {
				o = "∨"
			}
			return lx{s: opd(x) + " " + o + " " + opd(y)}, kx
		case token.EQL, token.NEQ, token.LSS, token.LEQ, token.GTR, token.GEQ:
			if t.isNil(v.X) || t.isNil(v.Y) || t.isErr(v.X) || t.isErr(v.Y) {
				// error values: nil ↦ none, a package level error variable ↦ some "name"; Go compares
				// the interface values (pointer identity of distinct errors.New results)
				if v.Op != token.EQL && v.Op != token.NEQ {
					failAt(e, "ordering comparison of errors")
				}
				x := t.exprWant(v.X, kind{k: kErr})
				y := t.exprWant(v.Y, kind{k: kErr})
				return lx{s: opd(x) + " " + cmpLean[v.Op] + " " + opd(y)}, kind{k: kBool}
			}
			x, kx := t.expr(v.X)
			y, ky := t.expr(v.Y)
			if kx != ky || !kx.isInt() {
				failAt(e, "comparison of kinds %s and %s is outside the subset: %s", kx.goName(), ky.goName(), src(e))
			}
			return lx{s: opd(x) + " " + cmpLean[v.Op] + " " + opd(y)}, kind{k: kBool}
		}
		x, kx := t.expr(v.X)
		if v.Op == token.SHL || v.Op == token.SHR {
			return t.arith(v.Op, x, kx, lx{}, kind{}, v.Y, e)
		}
		y, ky := t.expr(v.Y)
		return t.arith(v.Op, x, kx, y, ky, v.Y, e)
	case *ast.IndexExpr:
		b := t.bytesExpr(v.X)
		return lx{s: "(" + par(b) + ".get! " + t.natArg(v.Index) + ").toNat", atom: true}, kind{k: kUint, bits: 8}
	case *ast.SliceExpr:
		if v.Slice3 {
			failAt(e, "3-index slice")
		}
		b := t.bytesExpr(v.X)
		lo, hi := "0", par(b)+".size"
		if v.Low != nil {
			lo = t.natArg(v.Low)
		}
		if v.High != nil {
			hi = t.natArg(v.High)
		}
		return app(par(b) + ".extract " + lo + " " + hi), kind{k: kBytes}
	case *ast.CallExpr:
		// conversion
		if ftv, ok := t.p.info.Types[v.Fun]; ok && ftv.IsType() {
			if len(v.Args) != 1 {
				failAt(e, "conversion with %d arguments", len(v.Args))
			}
			to := t.kindOf(ftv.Type, e)
			x, from := t.expr(v.Args[0])
			return t.convert(x, from, to, e), to
		}
		if id, ok := v.Fun.(*ast.Ident); ok {
			if _, isBuiltin := t.p.info.Uses[id].(*types.Builtin); isBuiltin {
				switch id.Name {
				case "len":
					if len(v.Args) == 1 {
						b := t.bytesExpr(v.Args[0])
						return lx{s: "(" + par(b) + ".size : Int)", atom: true}, kind{k: kInt}
					}
				case "make":
					if len(v.Args) == 2 {
						if tv, ok := t.p.info.Types[v.Args[0]]; ok && tv.IsType() && t.kindOf(tv.Type, e).k == kBytes {
							return app("mkBytes " + t.natArg(v.Args[1])), kind{k: kBytes}
						}
					}
				case "min", "max":
					if len(v.Args) == 2 {
						x, kx := t.expr(v.Args[0])
						y, ky := t.expr(v.Args[1])
						if kx != ky || !kx.isInt() {
							failAt(e, "%s of kinds %s and %s: %s", id.Name, kx.goName(), ky.goName(), src(e))
						}
						return app(id.Name + " " + par(x) + " " + par(y)), kx
					}
				}
				failAt(e, "builtin %s is outside the subset: %s", id.Name, src(e))
			}
		}
		if x, ks, ok := t.call(v); ok {
			if len(ks) != 1 {
				failAt(e, "call %s with %d results in a single-value context", src(e), len(ks))
			}
			if ks[0].k == kBool {
				// (round 3) a Go bool is a Lean Bool as a result, a Prop inside an expression
				return lx{s: "(" + x.s + " = true)", atom: true}, ks[0]
			}
			return x, ks[0]
		}
		failAt(e, "call %s is neither a conversion, a supported builtin, in the primitive table, nor a translated function", src(e))
	}
	failAt(e, "expression %s (%T) is outside the subset", src(e), e)
	return lx{}, kind{}
}

// expression where `nil` is allowed (results)
func (t *tr) exprWant(e ast.Expr, want kind) lx {
	if id, ok := ast.Unparen(e).(*ast.Ident); ok && id.Name == "nil" {
		if _, isNil := t.p.info.Uses[id].(*types.Nil); isNil {
			switch want.k {
			case kBytes:
				return lx{s: "ByteArray.empty", atom: true}
			case kErr:
				return lx{s: "none", atom: true}
			}
			failAt(e, "nil of kind %s", want.goName())
		}
	}
	x, k := t.expr(e)
	if k != want {
		failAt(e, "kind %s expected, found %s: %s", want.goName(), k.goName(), src(e))
	}
	return x
}

func (t *tr) isNil(e ast.Expr) bool {
	id, ok := ast.Unparen(e).(*ast.Ident)
	if !ok || id.Name != "nil" {
		return false
	}
	_, isNil := t.p.info.Uses[id].(*types.Nil)
	return isNil
}

func (t *tr) isErr(e ast.Expr) bool {
	ty := t.typeOfExpr(e)
	if ty == nil {
		return false
	}
	named, ok := types.Unalias(ty).(*types.Named)
	return ok && named.Obj().Pkg() == nil && named.Obj().Name() == "error"
}

// recvField: the extra parameter standing for an integer field of the receiver
func (t *tr) recvField(fieldName string, k kind) string {
	return t.recvFieldOrd(fieldName, k, 0)
}

// (round 3) fieldName may be a path `dataFile.lastBlockID`; the result is the Lean reference: the
// parameter itself, or `st.<name>` when the function assigns the field (integer) or writes it ([]byte)
func (t *tr) recvFieldOrd(fieldName string, k kind, ord int) string {
	name := mangle(t.recvName + "_" + strings.ReplaceAll(fieldName, ".", "_"))
	ref := func(p param) string {
		if p.mut {
			return "st." + p.name
		}
		return p.name
	}
	for _, rf := range t.recvFields {
		if rf.name == name {
			if rf.field != fieldName {
				failAt(t.fd, "receiver fields %s and %s get the same Lean name", rf.field, fieldName)
			}
			return ref(rf)
		}
	}
	for _, p := range t.params {
		if p.name == name {
			failAt(t.fd, "receiver field %s clashes with parameter %s", fieldName, p.goName)
		}
	}
	if t.localNames[name] {
		failAt(t.fd, "receiver field %s clashes with a local", fieldName)
	}
	p := param{goName: t.recvName + "." + fieldName, name: name, k: k, field: fieldName, ord: ord, mut: t.r3.recvMut[fieldName] || t.r3.recvWritten[fieldName]}
	t.recvFields = append(t.recvFields, p)
	return ref(p)
}

// tuple projection of an n-tuple `a × b × c`
func proj(x lx, i, n int) string {
	if n == 1 {
		return x.s
	}
	s := par(x)
	for j := 0; j < i; j++ {
		s += ".2"
	}
	if i < n-1 {
		s += ".1"
	}
	return s
}

// call: a call of the primitive table or of an already translated function; returns the Lean
// expression of the result (a tuple for several results) and the result kinds
func (t *tr) call(v *ast.CallExpr) (lx, []kind, bool) {
	if x, ks, ok := t.dtCall(v); ok { // dt.go: clock reads
		return x, ks, true
	}
	for _, pr := range prims {
		b := map[string]ast.Node{}
		if !match(parseExpr(pr.pattern), v, b) {
			continue
		}
		var args []string
		for _, a := range pr.args {
			args = append(args, par(t.exprWant(b[a.meta].(ast.Expr), a.k)))
		}
		if pr.abstract != nil {
			t.useAbstract(*pr.abstract)
		}
		c := app(pr.lean + " " + strings.Join(args, " "))
		if pr.write != "" {
			// the bytes go to M_B[M_LO:], the value of the call is their number
			name, cur := t.writeTarget(b[pr.write].(ast.Expr))
			lo := t.natArg(b["M_LO"].(ast.Expr))
			t.pending = append(t.pending, pendingWrite{name: name, rhs: "putAt " + cur + " " + lo + " (" + c.s + ")", at: v})
			return lx{s: "((" + c.s + ").size : Int)", atom: true}, pr.res, true
		}
		return c, pr.res, true
	}
	// a function / a method on the same receiver, translated earlier
	var fobj *types.Func
	onRecv := false
	sub := "" // (round 3) the callee's receiver is the struct behind this pointer field path of our receiver
	var recvExpr ast.Expr
	switch f := v.Fun.(type) {
	case *ast.Ident:
		fobj, _ = t.p.info.Uses[f].(*types.Func)
	case *ast.SelectorExpr:
		if id, ok := f.X.(*ast.Ident); ok && t.recvObj != nil && t.p.info.Uses[id] == t.recvObj {
			fobj, _ = t.p.info.Uses[f.Sel].(*types.Func)
			onRecv = true
			recvExpr = f.X
		} else if path, ok := t.recvPtrPath(f.X); ok {
			fobj, _ = t.p.info.Uses[f.Sel].(*types.Func)
			onRecv = true
			sub = path + "."
			recvExpr = f.X
		}
	}
	if fobj == nil || fobj.Pkg() != t.p.tpkg {
		return lx{}, nil, false
	}
	key := fobj.Name()
	if sig, ok := fobj.Type().(*types.Signature); ok && sig.Recv() != nil {
		if !onRecv {
			return lx{}, nil, false
		}
		rt := sig.Recv().Type()
		if ptr, ok := rt.(*types.Pointer); ok {
			rt = ptr.Elem()
		}
		named, ok := types.Unalias(rt).(*types.Named)
		if !ok {
			return lx{}, nil, false
		}
		key = named.Obj().Name() + "." + key
	} else if onRecv {
		return lx{}, nil, false
	}
	fi := t.p.fns[key]
	if fi == nil {
		failAt(v, "call of %s, which is not translated (it must precede %s in the whitelist)", key, t.fd.Name.Name)
	}
	if !(fi.callable || fi.loopy) || len(fi.params) != fi.nparams || len(v.Args) != fi.nparams || v.Ellipsis != token.NoPos {
		failAt(v, "call of %s: only functions without effects on their output / receiver and without untranslatable parameters can be called", key)
	}
	if fi.usesFile {
		t.setFileOwner(recvExpr, v) // the callee reads the file of ITS receiver
	}
	var parts []string
	parts = append(parts, fi.leanName)
	for _, a := range fi.abstract {
		t.useAbstract(a)
		parts = append(parts, a.name)
	}
	for _, rf := range fi.recvFields {
		ord := rf.ord
		if sub != "" {
			_, subOrd, _ := t.recvChain(recvExpr)
			ord = subOrd + rf.ord/1000 // the callee's field, seen from our receiver
		}
		parts = append(parts, t.recvFieldOrd(sub+rf.field, rf.k, ord))
	}
	for i, p := range fi.params {
		parts = append(parts, par(t.exprWant(v.Args[i], p.k)))
	}
	if fi.loopy {
		// (round 3) the callee has a loop: its value is `Option …`; the call is evaluated in front of the
		// enclosing `if` and bound to a variable (hoistCalls)
		return t.hoistCall(v, key, strings.Join(parts, " ")), fi.results, true
	}
	if len(parts) == 1 {
		return lx{s: parts[0], atom: true}, fi.results, true
	}
	return app(strings.Join(parts, " ")), fi.results, true
}

// aliasRoots: the variables whose storage the value of a []byte expression may share
func (t *tr) aliasRoots(e ast.Expr) []*ast.Ident {
	switch v := ast.Unparen(e).(type) {
	case *ast.Ident:
		if t.isNil(v) {
			return nil
		}
		return []*ast.Ident{v}
	case *ast.SliceExpr:
		return t.aliasRoots(v.X)
	case *ast.SelectorExpr:
		if _, _, ok := t.recvPath(v); ok {
			return []*ast.Ident{v.Sel} // (round 3) a []byte field of the receiver: the field object
		}
		if id, ok := v.X.(*ast.Ident); ok {
			return []*ast.Ident{id}
		}
	case *ast.CallExpr:
		if id, ok := v.Fun.(*ast.Ident); ok && id.Name == "make" {
			if _, isBuiltin := t.p.info.Uses[id].(*types.Builtin); isBuiltin {
				return nil
			}
		}
		// a call may return a view of any of its []byte arguments
		var r []*ast.Ident
		for _, a := range v.Args {
			if ty := t.typeOfExpr(a); ty != nil {
				if _, isSlice := ty.Underlying().(*types.Slice); isSlice {
					r = append(r, t.aliasRoots(a)...)
				}
			}
		}
		return r
	}
	failAt(e, "cannot determine what %s aliases", src(e))
	return nil
}

// writesTo: does the statement write the []byte variable obj?
func (t *tr) writesTo(n ast.Node, obj types.Object) bool {
	found := false
	ast.Inspect(n, func(x ast.Node) bool {
		for _, w := range t.writeSites(x) {
			if t.p.info.Uses[w] == obj {
				found = true
			}
		}
		return !found
	})
	return found
}

// writeSites: the []byte variables a single AST node writes (not looking into its children,
// except for the statement sequences of the effect table, which are recognised at their first statement)
func (t *tr) writeSites(x ast.Node) []*ast.Ident {
	var r []*ast.Ident
	add := func(e ast.Expr) {
		if id := rootIdent(e); id != nil {
			r = append(r, id)
		}
	}
	switch v := x.(type) {
	case *ast.AssignStmt:
		for _, l := range v.Lhs {
			if ix, ok := l.(*ast.IndexExpr); ok {
				add(ix.X)
			}
		}
	case *ast.IncDecStmt:
		if ix, ok := v.X.(*ast.IndexExpr); ok {
			add(ix.X)
		}
	case *ast.CallExpr:
		if id, ok := v.Fun.(*ast.Ident); ok && id.Name == "copy" && len(v.Args) == 2 {
			add(v.Args[0])
		}
		for _, pr := range prims {
			if pr.write == "" {
				continue
			}
			b := map[string]ast.Node{}
			if match(parseExpr(pr.pattern), v, b) {
				add(b[pr.write].(ast.Expr))
			}
		}
		if dst := dtWriteDest(v); dst != nil { // dt.go: PutUint64/32/16
			add(dst)
		}
	case *ast.BlockStmt:
		for i := range v.List {
			for _, ef := range effects {
				if ef.writes == "" {
					continue
				}
				pats := parseStmts(ef.pattern)
				if i+len(pats) > len(v.List) {
					continue
				}
				b := map[string]ast.Node{}
				ok := true
				for j, p := range pats {
					if !match(p, v.List[i+j], b) {
						ok = false
						break
					}
				}
				if ok {
					add(b[ef.writes].(ast.Expr))
				}
			}
		}
	}
	return r
}

// checkAlias: value semantics for []byte is only sound when a written buffer is never visible
// under two names.  For `x = e` / `x := e` of kind []byte:
//   - if x itself is written somewhere, e must be fresh (make / nil);
//   - if e may be a view of a written buffer w, x must be declared by this very statement, and no
//     statement after it in the same block (the whole scope of x) may write w.
func (t *tr) checkAlias(lhs *ast.Ident, rhs ast.Expr, define bool, rest []ast.Stmt) {
	roots := t.aliasRoots(rhs)
	obj := t.p.info.Defs[lhs]
	if obj == nil {
		obj = t.p.info.Uses[lhs]
	}
	if t.written[obj] && len(roots) > 0 {
		failAt(lhs, "the written buffer %s is assigned from %s, which is not fresh (aliasing is outside the subset)", lhs.Name, src(rhs))
	}
	roots = t.expandViews(lhs, obj, roots) // (round 3) views of views; append targets must not be aliased
	for _, r := range roots {
		robj := t.p.info.Uses[r]
		if !t.written[robj] {
			continue
		}
		if !define || t.p.info.Defs[lhs] == nil {
			failAt(lhs, "%s becomes a view of the written buffer %s outside a declaration (aliasing is outside the subset)", lhs.Name, r.Name)
		}
		if t.writesTo(&ast.BlockStmt{List: rest}, robj) {
			failAt(lhs, "%s is a view of the buffer %s, which is written again within the scope of %s (aliasing is outside the subset)", lhs.Name, r.Name, lhs.Name)
		}
	}
}

// ---- statements ------------------------------------------------------------------------------

type out struct{ lines []string }

func (o *out) add(ind, s string) { o.lines = append(o.lines, ind+s) }

func (t *tr) declare(id *ast.Ident, k kind) string {
	obj := t.p.info.Defs[id]
	if obj == nil {
		failAt(id, "no definition object for %s", id.Name)
	}
	if k.k == kBool {
		failAt(id, "local %s of kind %s is outside the subset", id.Name, k.goName())
	}
	for _, a := range t.abstract {
		if a.name == mangle(id.Name) {
			failAt(id, "local %s clashes with an abstract parameter", id.Name)
		}
	}
	// cross-check with go/types when it knows the type
	if ty := obj.Type(); ty != nil {
		if b, ok := ty.(*types.Basic); !ok || b.Kind() != types.Invalid {
			if tk := t.kindOf(ty, id); tk != k {
				failAt(id, "local %s: go/types says %s, translation says %s", id.Name, tk.goName(), k.goName())
			}
		}
	}
	name := mangle(id.Name)
	if t.localNames[name] {
		failAt(id, "redeclaration / shadowing of %s is outside the subset", id.Name)
	}
	for _, p := range t.params {
		if p.name == name {
			failAt(id, "local %s shadows a parameter", id.Name)
		}
	}
	t.localNames[name] = true
	t.localByObj[obj] = len(t.locals)
	t.locals = append(t.locals, local{name, k, obj})
	return name
}

// l-value: returns a function building the structure update for a given right-hand side
func (t *tr) lvalue(e ast.Expr) (name string, k kind, upd func(rhs string) string, cur lx) {
	switch v := e.(type) {
	case *ast.Ident:
		obj := t.p.info.Uses[v]
		if obj == nil {
			obj = t.p.info.Defs[v]
		}
		if i, ok := t.localByObj[obj]; ok {
			l := t.locals[i]
			if l.k.k == kStruct {
				failAt(e, "assignment to the struct local %s (aliasing) is outside the subset", v.Name)
			}
			return l.name, l.k, func(r string) string { return l.name + " := " + r }, lx{s: "st." + l.name, atom: true}
		}
		if i, ok := t.paramByObj[obj]; ok && t.params[i].mut {
			p := t.params[i]
			return p.name, p.k, func(r string) string { return p.name + " := " + r }, lx{s: "st." + p.name, atom: true}
		}
	case *ast.SelectorExpr:
		if path, ord, ok := t.recvPath(v); ok {
			// (round 3) assignment to an integer field of the receiver: a state field, part of the result
			x, fk := t.recvFieldExpr(v, path, ord)
			if !fk.isInt() || !strings.HasPrefix(x.s, "st.") {
				failAt(e, "assignment to the receiver field %s of kind %s is outside the subset", src(e), fk.goName())
			}
			fname := strings.TrimPrefix(x.s, "st.")
			return fname, fk, func(r string) string { return fname + " := " + r }, x
		}
		if id, ok := v.X.(*ast.Ident); ok {
			if i, ok := t.localByObj[t.p.info.Uses[id]]; ok && t.locals[i].k.k == kStruct {
				l := t.locals[i]
				for _, f := range t.p.structs[l.k.name] {
					if f.name == v.Sel.Name {
						return l.name, f.k, func(r string) string {
							return l.name + " := { st." + l.name + " with " + mangle(f.name) + " := " + r + " }"
						}, lx{s: "st." + l.name + "." + mangle(f.name), atom: true}
					}
				}
			}
		}
	}
	failAt(e, "assignment target %s is outside the subset", src(e))
	return
}

var opOfAssign = map[token.Token]token.Token{
	token.ADD_ASSIGN: token.ADD, token.SUB_ASSIGN: token.SUB, token.MUL_ASSIGN: token.MUL, token.QUO_ASSIGN: token.QUO,
	token.REM_ASSIGN: token.REM, token.OR_ASSIGN: token.OR, token.AND_ASSIGN: token.AND, token.SHL_ASSIGN: token.SHL,
	token.SHR_ASSIGN: token.SHR,
}

// hasExit: does the node contain a return, break or continue (outside function literals)?
func hasExit(n ast.Node) bool {
	found := false
	ast.Inspect(n, func(x ast.Node) bool {
		switch x.(type) {
		case *ast.ReturnStmt, *ast.BranchStmt:
			found = true
		case *ast.FuncLit:
			return false
		}
		return !found
	})
	return found
}

// does every path through the statement list end in a return / break / continue?
func terminates(list []ast.Stmt) bool {
	if len(list) == 0 {
		return false
	}
	switch v := list[len(list)-1].(type) {
	case *ast.ReturnStmt, *ast.BranchStmt:
		return true
	case *ast.BlockStmt:
		return terminates(v.List)
	case *ast.IfStmt:
		if v.Else == nil {
			return false
		}
		var el []ast.Stmt
		switch e := v.Else.(type) {
		case *ast.BlockStmt:
			el = e.List
		default:
			el = []ast.Stmt{e}
		}
		return terminates(v.Body.List) && terminates(el)
	}
	return false
}

func (t *tr) emitSeg(o *out, ind, seg string) {
	t.hasEffects = true
	o.add(ind, "let st : "+t.leanName+".St := { st with segs := st.segs ++ ["+seg+"] }")
}

// occurrences of the variable obj below root
func (t *tr) countObj(root ast.Node, obj types.Object) int {
	c := 0
	ast.Inspect(root, func(n ast.Node) bool {
		if id, ok := n.(*ast.Ident); ok && (t.p.info.Uses[id] == obj || t.p.info.Defs[id] == obj) {
			c++
		}
		return true
	})
	return c
}

// tryEffect: does a table entry match the statements starting at list[i]? returns the number of
// statements consumed
func (t *tr) tryEffect(list []ast.Stmt, i int, o *out, ind string) int {
	for _, ef := range effects {
		pats := parseStmts(ef.pattern)
		if i+len(pats) > len(list) {
			continue
		}
		b := map[string]ast.Node{}
		ok := true
		for j, p := range pats {
			if !match(p, list[i+j], b) {
				ok = false
				break
			}
		}
		if !ok {
			continue
		}
		// side conditions of the table
		if m, ok := b["M_BUF"]; ok {
			id, isId := m.(*ast.Ident)
			if !isId || t.skipped[t.p.info.Uses[id]] != "*bytebufferpool.ByteBuffer" {
				failAt(list[i], "effect %s: %s is not a *bytebufferpool.ByteBuffer parameter", ef.name, src(m))
			}
		}
		if m, ok := b["M_RECV"]; ok {
			id, isId := m.(*ast.Ident)
			if !isId || t.recvObj == nil || t.p.info.Uses[id] != t.recvObj {
				failAt(list[i], "effect %s: %s is not the receiver", ef.name, src(m))
			}
		}
		if m, ok := b["M_RW"]; ok {
			// (round 3) the struct that owns the ReadWriter: the receiver, or a struct the receiver points to
			t.setFileOwner(m.(ast.Expr), list[i])
		} else if ef.usesFile {
			t.setFileOwner(b["M_RECV"].(ast.Expr), list[i])
		}
		if m, ok := b["M_DATA"]; ok {
			id, isId := m.(*ast.Ident)
			pi, isParam := t.paramByObj[t.p.info.Uses[id]]
			if !isId || !isParam || t.params[pi].k.k != kBytes {
				failAt(list[i], "effect %s: %s is not a []byte parameter", ef.name, src(m))
			}
		}
		for _, tmp := range ef.tmps {
			id, isId := b[tmp].(*ast.Ident)
			if !isId {
				failAt(list[i], "effect %s: temporary is not an identifier", ef.name)
			}
			obj := t.p.info.Defs[id]
			if obj == nil {
				failAt(list[i], "effect %s: temporary %s is not declared by the matched statements", ef.name, id.Name)
			}
			inPat := 0
			for _, p := range pats {
				inPat += countIdent(p, tmp)
			}
			if t.countObj(t.fd.Body, obj) != inPat {
				failAt(list[i], "effect %s: temporary %s is also used outside the matched statements", ef.name, id.Name)
			}
		}
		t.pending = nil
		ef.apply(t, b, o, ind)
		return len(pats)
	}
	return 0
}

// simple (non-control) statement -> one `let st := { st with … }` line; rest = the statements that
// follow in the same block (alias check)
func (t *tr) simple(s ast.Stmt, o *out, ind string, rest []ast.Stmt) bool {
	t.pending = nil
	var upds []string
	seen := map[string]bool{}
	addUpd := func(name, u string) {
		if seen[name] {
			failAt(s, "two assignments to %s in one statement", name)
		}
		seen[name] = true
		upds = append(upds, u)
	}
	flush := func() {
		for _, p := range t.pending {
			// the buffer must not be mentioned elsewhere in the statement (Go's evaluation order
			// between the call and other reads is not what `st` = old state gives)
			n := 0
			ast.Inspect(s, func(x ast.Node) bool {
				if id, ok := x.(*ast.Ident); ok && mangle(id.Name) == p.name {
					n++
				}
				return true
			})
			if n != 1 {
				failAt(s, "the buffer written by %s is mentioned more than once in the statement", src(p.at))
			}
			addUpd(p.name, p.name+" := "+p.rhs)
		}
		t.pending = nil
		if len(upds) > 0 {
			o.add(ind, "let st : "+t.leanName+".St := { st with "+strings.Join(upds, ", ")+" }")
		}
	}
	switch v := s.(type) {
	case *ast.EmptyStmt:
		return true
	case *ast.ExprStmt:
		// copy(dst, src)
		ce, ok := v.X.(*ast.CallExpr)
		if !ok {
			return false
		}
		if name, rhs, ok := t.dtWriteStmt(ce); ok { // dt.go: copy(b[lo:hi], e), PutUint64/32/16(b[lo:hi], v)
			t.noPending(s)
			addUpd(name, name+" := "+rhs)
			flush()
			return true
		}
		id, ok := ce.Fun.(*ast.Ident)
		if !ok || id.Name != "copy" || len(ce.Args) != 2 {
			return false
		}
		if _, isBuiltin := t.p.info.Uses[id].(*types.Builtin); !isBuiltin {
			return false
		}
		name, cur := t.writeTarget(ce.Args[0])
		x := t.bytesExpr(ce.Args[1])
		t.noPending(s)
		addUpd(name, name+" := copySlice "+cur+" "+par(x))
		flush()
		return true
	case *ast.AssignStmt:
		if name, rhs, ok := t.appendStmt(v); ok {
			// (round 3) x = append(x, e...) on an append-only []byte local
			t.noPending(s)
			addUpd(name, name+" := "+rhs)
			flush()
			return true
		}
		switch {
		case len(v.Rhs) == 1 && len(v.Lhs) > 1:
			// a, b := f(…) / a, b = f(…): a call of the primitive table or of a translated function
			if v.Tok != token.DEFINE && v.Tok != token.ASSIGN {
				failAt(s, "assignment operator %s with several targets", v.Tok)
			}
			ce, ok := ast.Unparen(v.Rhs[0]).(*ast.CallExpr)
			if !ok {
				failAt(s, "multi-value assignment from %s is outside the subset", src(v.Rhs[0]))
			}
			x, ks, ok := t.call(ce)
			if !ok {
				failAt(s, "call %s is neither in the primitive table nor a translated function", src(ce))
			}
			if len(ks) != len(v.Lhs) {
				failAt(s, "%d targets for %d results", len(v.Lhs), len(ks))
			}
			o.add(ind, "let rv := "+x.s)
			rv := lx{s: "rv", atom: true}
			for i, l := range v.Lhs {
				id, isId := l.(*ast.Ident)
				if isId && id.Name == "_" {
					continue
				}
				val := proj(rv, i, len(ks))
				if v.Tok == token.DEFINE && isId && t.p.info.Defs[id] != nil {
					if ks[i].k == kBytes {
						t.checkAlias(id, v.Rhs[0], true, rest)
					}
					name := t.declare(id, ks[i])
					addUpd(name, name+" := "+val)
					continue
				}
				name, k, upd, _ := t.lvalue(l)
				if k != ks[i] {
					failAt(l, "kind mismatch in assignment to %s: %s expected, the call yields %s", src(l), k.goName(), ks[i].goName())
				}
				if k.k == kBytes {
					if !isId {
						failAt(l, "[]byte assignment target %s", src(l))
					}
					t.checkAlias(id, v.Rhs[0], false, rest)
				}
				addUpd(name, upd(val))
			}
		case len(v.Lhs) != len(v.Rhs):
			failAt(s, "assignment with %d targets and %d values is outside the subset", len(v.Lhs), len(v.Rhs))
		case v.Tok == token.DEFINE:
			// all right-hand sides are evaluated in the old state
			type pend struct {
				id *ast.Ident
				x  lx
				k  kind
				e  ast.Expr
			}
			var ps []pend
			for i, l := range v.Lhs {
				id, ok := l.(*ast.Ident)
				if !ok {
					failAt(l, "define target")
				}
				x, k := t.expr(v.Rhs[i])
				ps = append(ps, pend{id, x, k, v.Rhs[i]})
			}
			for _, p := range ps {
				if p.id.Name == "_" {
					continue
				}
				if t.p.info.Defs[p.id] == nil {
					// `a, b := …` re-assigning an existing a
					name, k, upd, _ := t.lvalue(p.id)
					if k != p.k {
						failAt(p.id, "kind mismatch in assignment to %s", p.id.Name)
					}
					if k.k == kBytes {
						t.checkAlias(p.id, p.e, false, rest)
					}
					addUpd(name, upd(p.x.s))
					continue
				}
				if p.k.k == kBytes {
					t.checkAlias(p.id, p.e, true, rest)
				}
				name := t.declare(p.id, p.k)
				addUpd(name, name+" := "+p.x.s)
			}
		case v.Tok == token.ASSIGN:
			for i, l := range v.Lhs {
				if id, ok := l.(*ast.Ident); ok && id.Name == "_" {
					failAt(s, "assignment to _ outside the effect table: %s", src(s))
				}
				if ix, ok := l.(*ast.IndexExpr); ok {
					// b[i] = x on a written []byte variable
					name, cur := t.writeTarget(ix.X)
					idx := t.natArg(ix.Index)
					x, k := t.expr(v.Rhs[i])
					if k != (kind{k: kUint, bits: 8}) {
						failAt(s, "byte expected in %s, found %s", src(s), k.goName())
					}
					addUpd(name, name+" := putAt "+cur+" "+idx+" (ByteArray.mk #[UInt8.ofNat "+par(x)+"])")
					continue
				}
				name, k, upd, _ := t.lvalue(l)
				x := t.exprWant(v.Rhs[i], k)
				if k.k == kBytes {
					id, isId := l.(*ast.Ident)
					if !isId {
						failAt(l, "[]byte assignment target %s", src(l))
					}
					t.checkAlias(id, v.Rhs[i], false, rest)
				}
				addUpd(name, upd(x.s))
			}
		default:
			op, ok := opOfAssign[v.Tok]
			if !ok || len(v.Lhs) != 1 {
				failAt(s, "assignment operator %s is outside the subset", v.Tok)
			}
			name, k, upd, cur := t.lvalue(v.Lhs[0])
			var r lx
			var rk kind
			if op == token.SHL || op == token.SHR {
				r, rk = t.arith(op, cur, k, lx{}, kind{}, v.Rhs[0], s)
			} else {
				y, ky := t.expr(v.Rhs[0])
				r, rk = t.arith(op, cur, k, y, ky, v.Rhs[0], s)
			}
			if rk != k {
				failAt(s, "kind mismatch")
			}
			addUpd(name, upd(r.s))
		}
		flush()
		return true
	case *ast.IncDecStmt:
		name, k, upd, cur := t.lvalue(v.X)
		if !k.isInt() {
			failAt(s, "++/-- on non-integer")
		}
		var r string
		switch {
		case k.k == kInt && v.Tok == token.INC:
			r = "i64 (" + cur.s + " + 1)"
		case k.k == kInt:
			r = "i64 (" + cur.s + " - 1)"
		case v.Tok == token.INC:
			r = "(" + cur.s + " + 1) % " + pow2(k.bits)
		default:
			r = "(" + cur.s + " + " + pow2(k.bits) + " - 1) % " + pow2(k.bits)
		}
		addUpd(name, upd(r))
		flush()
		return true
	case *ast.DeclStmt:
		gd, ok := v.Decl.(*ast.GenDecl)
		if !ok || gd.Tok != token.VAR {
			failAt(s, "declaration %s is outside the subset", src(s))
		}
		for _, sp := range gd.Specs {
			vs := sp.(*ast.ValueSpec)
			if len(vs.Values) != 0 && len(vs.Values) != len(vs.Names) {
				failAt(s, "var declaration with a multi-value initialiser")
			}
			for i, id := range vs.Names {
				if id.Name == "_" {
					failAt(s, "var _")
				}
				if len(vs.Values) == 0 {
					obj := t.p.info.Defs[id]
					if obj == nil {
						failAt(id, "no type for %s", id.Name)
					}
					k := t.kindOf(obj.Type(), id)
					name := t.declare(id, k)
					addUpd(name, name+" := "+zero(t, k))
					continue
				}
				x, k := t.expr(vs.Values[i])
				if k.k == kBytes {
					t.checkAlias(id, vs.Values[i], true, rest)
				}
				name := t.declare(id, k)
				addUpd(name, name+" := "+x.s)
			}
			flush()
			upds, seen = nil, map[string]bool{}
		}
		return true
	}
	return false
}

func elseList(s ast.Stmt) []ast.Stmt {
	switch e := s.(type) {
	case nil:
		return nil
	case *ast.BlockStmt:
		return e.List
	default:
		return []ast.Stmt{e}
	}
}

func (t *tr) cond(e ast.Expr) lx {
	t.pending = nil
	c, ck := t.expr(e)
	if ck.k != kBool {
		failAt(e, "condition is not a bool")
	}
	t.noPending(e)
	return c
}

// state transformer: statements without return / break / continue; leaves the new state in `st`
func (t *tr) transform(list []ast.Stmt, o *out, ind string) {
	for i := 0; i < len(list); {
		if n := t.tryEffect(list, i, o, ind); n > 0 {
			i += n
			continue
		}
		s := list[i]
		i++
		if t.simple(s, o, ind, list[i:]) {
			continue
		}
		switch v := s.(type) {
		case *ast.BlockStmt:
			t.transform(v.List, o, ind)
		case *ast.IfStmt:
			if v.Init != nil {
				failAt(s, "if with an init statement is outside the subset")
			}
			c := t.cond(v.Cond)
			o.add(ind, "let st : "+t.leanName+".St :=")
			o.add(ind, "  if "+c.s+" then")
			t.transform(v.Body.List, o, ind+"    ")
			o.add(ind, "    st")
			o.add(ind, "  else")
			t.transform(elseList(v.Else), o, ind+"    ")
			o.add(ind, "    st")
		case *ast.ForStmt:
			failAt(s, "a loop nested in an if/for body is outside the subset")
		default:
			failAt(s, "statement %T is outside the subset: %s", s, src(s))
		}
	}
}

var atomRe = regexp.MustCompile(`^[A-Za-z0-9_.]+$`)

// the value a `return e1, …, en` yields: the Go results, then the emitted segments / output bytes
func (t *tr) retInner(vals []string) (string, bool) {
	r, atom := "()", true
	switch {
	case len(vals) == 1:
		r, atom = vals[0], atomRe.MatchString(vals[0])
	case len(vals) > 1:
		r = "(" + strings.Join(vals, ", ") + ")"
	}
	if t.hasEffects {
		r, atom = "("+r+", st.segs)", true
	}
	if t.hasOut {
		if len(vals) == 0 {
			r, atom = "st.out", true
		} else {
			r, atom = "("+r+", st.out)", true
		}
	}
	if len(t.r3.recvMut) > 0 {
		r, atom = "("+r+", @RECVOUT@)", true // (round 3) final values of the assigned receiver fields
	}
	if t.r3.truncated {
		r, atom = "("+r+", st.file_)", true // (round 3) the content of the file after the function
	}
	return r, atom
}

func (t *tr) ret(vals []string) string {
	r, atom := t.retInner(vals)
	if t.hasLoop {
		if !atom {
			r = "(" + r + ")"
		}
		r = "some " + r
	}
	return r
}

// terminal: statements all of whose paths end in a return (function level) or in a return / break /
// continue / the end of the body (loop body in Ctl mode); yields the function result resp. a `Ctl`
func (t *tr) terminal(list []ast.Stmt, o *out, ind string, top bool) {
	for i := 0; i < len(list); {
		if n := t.tryEffect(list, i, o, ind); n > 0 {
			i += n
			continue
		}
		s := list[i]
		i++
		if t.simple(s, o, ind, list[i:]) {
			continue
		}
		switch v := s.(type) {
		case *ast.ReturnStmt:
			if len(v.Results) != len(t.results) {
				failAt(s, "return with %d values, %d expected (naked returns are outside the subset)", len(v.Results), len(t.results))
			}
			t.pending = nil
			var vals []string
			for j, r := range v.Results {
				vals = append(vals, t.resultVal(r, j)) // (round 3: bool results, nil-able pointer results)
			}
			t.noPending(s)
			if t.inLoop {
				r, atom := t.retInner(vals)
				if !atom {
					r = "(" + r + ")"
				}
				o.add(ind, ".ret "+r)
			} else {
				o.add(ind, t.ret(vals))
			}
			if i != len(list) {
				failAt(list[i], "unreachable statement after return")
			}
			return
		case *ast.BranchStmt:
			if !t.inLoop || v.Label != nil || (v.Tok != token.BREAK && v.Tok != token.CONTINUE) {
				failAt(s, "%s is outside the subset here", src(s))
			}
			if v.Tok == token.BREAK {
				o.add(ind, ".brk st")
			} else {
				o.add(ind, ".next st")
			}
			if i != len(list) {
				failAt(list[i], "unreachable statement after %s", v.Tok)
			}
			return
		case *ast.BlockStmt:
			if hasExit(v) {
				failAt(s, "nested block with return/break/continue is outside the subset")
			}
			t.transform(v.List, o, ind)
		case *ast.IfStmt:
			if !hasExit(v) {
				t.transform([]ast.Stmt{s}, o, ind)
				continue
			}
			if v.Init != nil {
				failAt(s, "if with an init statement is outside the subset")
			}
			// (round 3) calls of translated functions with loops in the condition are evaluated first
			c, ind := t.condHoisted(v.Cond, o, ind)
			rest := list[i:]
			el := elseList(v.Else)
			bodyT, elseT := terminates(v.Body.List), terminates(el)
			if !bodyT && !elseT && len(rest) > 0 {
				// (round 3) both branches continue: the continuation becomes a local function (join point)
				t.joinPoint(c, v.Body.List, el, rest, o, ind)
				return
			}
			// locals declared in the continuation are declared once: translate the continuation
			// only in the branch that does not terminate
			o.add(ind, "if "+c.s+" then")
			if bodyT {
				t.terminal(v.Body.List, o, ind+"  ", false)
			} else {
				t.terminal(append(append([]ast.Stmt{}, v.Body.List...), rest...), o, ind+"  ", false)
			}
			o.add(ind, "else")
			if elseT {
				t.terminal(el, o, ind+"  ", false)
			} else {
				t.terminal(append(append([]ast.Stmt{}, el...), rest...), o, ind+"  ", false)
			}
			return
		case *ast.ForStmt:
			// any position whose continuation is the rest of the function (`top` is kept for
			// documentation: such positions are the function body and the continuing branch of an
			// early-return `if`)
			_ = top
			if t.inLoop {
				failAt(s, "a loop nested in a loop body is outside the subset")
			}
			if v.Init != nil || v.Post != nil {
				// (round 4, round4.go) counted loop: `i := c`, then `for i < N { …; i++ }` with fuel N - c + 1
				init, lp, fuel := t.countedLoop(v)
				if !t.simple(init, o, ind, []ast.Stmt{lp}) {
					failAt(init, "init statement of a counted loop is outside the subset")
				}
				t.r4fuel = fuel
				v = lp
			}
			t.loop(v, o, ind)
			ind += "  "
		case *ast.RangeStmt:
			t.rangeLoop(v, o, ind) // (round 3) `for i, b := range bytes`, also directly inside a `for` body
			ind += "  "
		default:
			failAt(s, "statement %T is outside the subset: %s", s, src(s))
		}
	}
	if t.r3.fallK != "" {
		o.add(ind, t.r3.fallK) // (round 3) the end of a branch in front of a join point
		return
	}
	if t.inLoop {
		o.add(ind, ".next st") // the end of the body: next iteration
		return
	}
	if len(t.results) == 0 {
		o.add(ind, t.ret(nil)) // a function without results may fall off its end
		return
	}
	failAt(t.fd, "function %s can reach the end of its body without a return", t.fd.Name.Name)
}

func (t *tr) loop(v *ast.ForStmt, o *out, ind string) {
	if v.Init != nil || v.Post != nil {
		failAt(v, "only `for cond { … }` and `for { … }` loops are in the subset")
	}
	bad := ""
	ast.Inspect(v.Body, func(n ast.Node) bool {
		switch x := n.(type) {
		case *ast.BranchStmt:
			if x.Label != nil || (x.Tok != token.BREAK && x.Tok != token.CONTINUE) {
				bad = "goto / labelled branch"
			}
		case *ast.ForStmt:
			bad = "nested loop"
		case *ast.RangeStmt:
			// (round 3) a range loop over bytes directly in the body is translated by rangeLoop, which
			// checks its own body; `break` / `continue` inside it belong to it
		case *ast.LabeledStmt:
			bad = "label"
		case *ast.SwitchStmt, *ast.TypeSwitchStmt, *ast.SelectStmt:
			bad = "switch/select" // would capture `break`
		case *ast.DeferStmt:
			bad = "defer"
		}
		return bad == ""
	})
	if bad != "" {
		failAt(v, "%s inside a loop body is outside the subset", bad)
	}
	idx := t.nloop
	t.nloop++
	fuelOf := func(int) string { return "" }
	if t.r4fuel != "" {
		// (round 4) counted loop: the fuel is computed from its constant bounds; the table entry of this loop, if any, is ignored
		f := t.r4fuel
		t.r4fuel = ""
		fuelOf = func(int) string { return f }
	} else if idx >= len(t.sp.fuel) {
		failAt(v, "no fuel expression in the table for loop %d of %s", idx, t.fd.Name.Name)
	} else {
		fuelOf = func(i int) string { return t.sp.fuel[i] }
	}
	stName := t.leanName + ".St"
	bodyName := fmt.Sprintf("%s.body%d", t.leanName, idx)
	loopName := fmt.Sprintf("%s.loop%d", t.leanName, idx)
	condSrc := ""
	var c lx
	if v.Cond != nil {
		c = t.cond(v.Cond)
		condSrc = src(v.Cond) + " "
	}
	if v.Cond != nil && !hasExit(v.Body) {
		// plain `for cond { body }`: body is a state transformer
		body := &out{}
		t.transform(v.Body.List, body, "  ")
		// the helper text is finished in function(): parameter lists depend on which parameters occur
		t.r3.loopIdx = append(t.r3.loopIdx, idx)
		t.loops = append(t.loops, strings.Join([]string{
			"/-- body of loop " + fmt.Sprint(idx) + " of `" + t.fd.Name.Name + "` (`for " + condSrc + "{ … }`) -/",
			"def " + bodyName + " @PARAMS@(st : " + stName + ") : " + stName + " :=",
			strings.Join(body.lines, "\n"),
			"  st",
			"",
			"/-- loop " + fmt.Sprint(idx) + " of `" + t.fd.Name.Name + "`; `none` = fuel exhausted (never a result) -/",
			"def " + loopName + " @PARAMS@: Nat → " + stName + " → Option " + stName,
			"  | 0, _ => none",
			"  | fuel+1, st =>",
			"    if " + c.s + " then " + loopName + " @ARGS@fuel (" + bodyName + " @ARGS@st)",
			"    else some st",
		}, "\n"))
		o.add(ind, "match "+loopName+" @ARGS"+fmt.Sprint(idx)+"@("+fuelOf(idx)+") st with")
		o.add(ind, "| none => none")
		o.add(ind, "| some st =>")
		return
	}
	// loop with return / break / continue in its body (or without condition): the body yields a Ctl
	body := &out{}
	savedK := t.r3.fallK
	t.r3.fallK = "" // the end of the loop body is the next iteration, not an enclosing join point
	t.inLoop = true
	t.terminal(v.Body.List, body, "  ", false)
	t.inLoop = false
	t.r3.fallK = savedK
	lines := []string{
		"/-- body of loop " + fmt.Sprint(idx) + " of `" + t.fd.Name.Name + "` (`for " + condSrc + "{ … }`): next iteration, `break`, or `return v` -/",
		"def " + bodyName + " @PARAMS@(st : " + stName + ") : Ctl " + stName + " (@RT@) :=",
		strings.Join(body.lines, "\n"),
		"",
		"/-- loop " + fmt.Sprint(idx) + " of `" + t.fd.Name.Name + "`; `none` = fuel exhausted (never a result),",
		"    `.inl st` = the loop was left normally in state st, `.inr v` = the function returned v from inside -/",
		"def " + loopName + " @PARAMS@: Nat → " + stName + " → Option (" + stName + " ⊕ (@RT@))",
		"  | 0, _ => none",
		"  | fuel+1, st =>",
	}
	// (not a `match` on the body's result: Lean's equation compiler would unfold the body)
	step := "Ctl.step (" + bodyName + " @ARGS@st) (" + loopName + " @ARGS@fuel)"
	if v.Cond != nil {
		lines = append(lines, "    if "+c.s+" then "+step)
		lines = append(lines, "    else some (.inl st)")
	} else {
		lines = append(lines, "    "+step)
	}
	t.r3.loopIdx = append(t.r3.loopIdx, idx)
	t.loops = append(t.loops, strings.Join(lines, "\n"))
	o.add(ind, "Ctl.after ("+loopName+" @ARGS"+fmt.Sprint(idx)+"@("+fuelOf(idx)+") st) fun st =>")
}

var wordRe = regexp.MustCompile(`[A-Za-z_][A-Za-z0-9_.']*`)

func usesWord(text, w string) bool {
	for _, m := range wordRe.FindAllString(text, -1) {
		if m == w || strings.HasPrefix(m, w+".") {
			return true
		}
	}
	return false
}

func (t *tr) setup(fd *ast.FuncDecl) {
	t.fd = fd
	t.paramByObj = map[types.Object]int{}
	t.localByObj = map[types.Object]int{}
	t.localNames = map[string]bool{}
	t.skipped = map[types.Object]string{}
	t.written = map[types.Object]bool{}
	if fd.Recv != nil && len(fd.Recv.List) == 1 && len(fd.Recv.List[0].Names) == 1 {
		t.recvName = fd.Recv.List[0].Names[0].Name
		t.recvObj = t.p.info.Defs[fd.Recv.List[0].Names[0]]
	}
	// which parameters are assigned?
	assigned := map[string]bool{}
	ast.Inspect(fd.Body, func(n ast.Node) bool {
		switch v := n.(type) {
		case *ast.AssignStmt:
			for _, l := range v.Lhs {
				if id, ok := l.(*ast.Ident); ok {
					assigned[id.Name] = true
				}
			}
		case *ast.IncDecStmt:
			if id, ok := v.X.(*ast.Ident); ok {
				assigned[id.Name] = true
			}
		case *ast.UnaryExpr:
			if v.Op == token.AND {
				if id, ok := v.X.(*ast.Ident); ok {
					assigned[id.Name] = true // address taken
				}
			}
		}
		return true
	})
	t.r3init(fd) // (round 3) which receiver fields are assigned?
	// which []byte variables are written (through an index assignment, copy, a write primitive or
	// an effect of the table)?
	ast.Inspect(fd.Body, func(n ast.Node) bool {
		for _, w := range t.writeSites(n) {
			if obj := t.p.info.Uses[w]; obj != nil {
				t.written[obj] = true
			}
		}
		return true
	})
	for _, f := range fd.Type.Params.List {
		for _, id := range f.Names {
			obj := t.p.info.Defs[id]
			var k kind
			okKind := func() (ok bool) {
				defer func() {
					if r := recover(); r != nil {
						if _, is := r.(unsupported); is {
							ok = false
							return
						}
						panic(r)
					}
				}()
				if obj == nil {
					return false
				}
				k = t.kindOf(obj.Type(), id)
				return k.isInt() || k.k == kBytes || k.k == kStruct
			}()
			if !okKind {
				t.skipped[obj] = src(f.Type)
				continue
			}
			if k.k == kStruct && assigned[id.Name] {
				failAt(id, "struct parameter %s is assigned or has its address taken", id.Name)
			}
			t.paramByObj[obj] = len(t.params)
			t.params = append(t.params, param{goName: id.Name, name: mangle(id.Name), k: k, mut: assigned[id.Name] || t.written[obj]})
		}
	}
}

func (t *tr) paramDecl(ps []param) string {
	var parts []string
	for _, p := range ps {
		parts = append(parts, "("+p.name+" : "+p.k.lean()+")")
	}
	return strings.Join(parts, " ")
}

func (t *tr) allParams() []param {
	t.dtSortRecvFields() // dt.go: declaration order of the struct, not first-use order
	var ps []param
	for _, a := range t.abstract {
		ps = append(ps, param{name: a.name, k: kind{k: -1}, goName: a.ty, field: a.doc})
	}
	ps = append(ps, t.recvFields...)
	ps = append(ps, t.params...)
	return ps
}

func declOf(ps []param) string {
	var parts []string
	for _, p := range ps {
		ty := p.k.lean()
		if p.k.k == -1 {
			ty = p.goName // abstract parameter: its Lean type
		}
		parts = append(parts, "("+p.name+" : "+ty+")")
	}
	if len(parts) == 0 {
		return ""
	}
	return strings.Join(parts, " ") + " "
}

func argsOf(ps []param) string {
	var parts []string
	for _, p := range ps {
		parts = append(parts, p.name)
	}
	if len(parts) == 0 {
		return ""
	}
	return strings.Join(parts, " ") + " "
}

func (t *tr) rangeDoc() string {
	var parts []string
	for _, p := range t.allParams() {
		switch p.k.k {
		case kUint:
			parts = append(parts, fmt.Sprintf("%s < 2^%d", p.name, p.k.bits))
		case kInt:
			parts = append(parts, fmt.Sprintf("-2^63 ≤ %s < 2^63", p.name))
		case -1:
			parts = append(parts, p.field)
		case kBytes:
			if p.field != "" && p.mut { // (round 3) a []byte receiver field the function writes
				parts = append(parts, p.name+" = content of "+p.goName+" at entry (unspecified; the final content is not part of the result)")
			}
		case kStruct:
			for _, f := range t.p.structs[p.k.name] {
				if f.k.k == kUint {
					parts = append(parts, fmt.Sprintf("%s.%s < 2^%d", p.name, mangle(f.name), f.k.bits))
				}
			}
		}
	}
	return strings.Join(parts, ", ")
}

// translate a whole function
func (t *tr) function() string {
	fd := t.fd
	if fd.Type.Results != nil {
		for _, f := range fd.Type.Results.List {
			if len(f.Names) > 0 {
				failAt(f, "named results are outside the subset")
			}
			obj := t.p.info.Types[f.Type]
			t.results = append(t.results, t.kindOf(obj.Type, f.Type))
		}
	}
	ast.Inspect(fd.Body, func(n ast.Node) bool {
		if _, ok := n.(*ast.ForStmt); ok {
			t.hasLoop = true
		}
		return true
	})
	t.r3results() // (round 3) nil-able pointer results; range loops and calls of functions with loops also give `Option`
	// effects are discovered while translating; a first dry pass finds out whether there are any
	// (the result shape depends on it)
	dry := *t
	dry.p = &pkgInfo{dir: t.p.dir, name: t.p.name, files: t.p.files, info: t.p.info, tpkg: t.p.tpkg, funcs: t.p.funcs, fns: t.p.fns,
		consts: map[string]string{}, structs: map[string][]field{}}
	for k, v := range t.p.structs {
		dry.p.structs[k] = v
	}
	dry.paramByObj, dry.localByObj, dry.localNames = copyMap(t.paramByObj), map[types.Object]int{}, map[string]bool{}
	dry.recvFields = append([]param{}, t.recvFields...)
	dry.abstract = append([]absParam{}, t.abstract...)
	dry.terminal(fd.Body.List, &out{}, "  ", true)
	t.hasEffects, t.hasOut = dry.hasEffects, dry.hasOut
	t.r3.truncated = dry.r3.truncated // (round 3) known before the real pass: every return carries the file
	if t.hasEffects && t.hasOut {
		failAt(fd, "segment effects and byte-append effects in one function are outside the subset")
	}
	if len(t.results) == 0 && !t.hasEffects && !t.hasOut {
		failAt(fd, "function without results and without effects")
	}

	o := &out{}
	t.terminal(fd.Body.List, o, "  ", true)
	// (round 3) receiver field parameters in declaration order, not first-use order: the signature of the
	// generated definition does not change when statements are reordered
	sort.SliceStable(t.recvFields, func(i, j int) bool { return t.recvFields[i].ord < t.recvFields[j].ord })

	all := t.allParams()
	stName := t.leanName + ".St"
	var sb strings.Builder
	// state structure
	type fld struct{ name, ty, init, doc string }
	var flds []fld
	for _, p := range t.params {
		if p.mut {
			flds = append(flds, fld{p.name, p.k.lean(), p.name, "parameter (" + p.k.goName() + ")"})
		}
	}
	for _, p := range t.recvFields {
		if p.mut { // (round 3)
			flds = append(flds, fld{p.name, p.k.lean(), p.name, "receiver field " + p.goName + " (" + p.k.goName() + "), assigned / written by the function"})
		}
	}
	for _, l := range t.locals {
		flds = append(flds, fld{l.name, l.k.lean(), zero(t, l.k), l.k.goName()})
	}
	if t.hasEffects {
		flds = append(flds, fld{"segs", "List Seg", "[]", "segments appended to the output buffer so far"})
	}
	if t.hasOut {
		flds = append(flds, fld{"out", "ByteArray", "ByteArray.empty", "bytes appended to the output buffer so far"})
	}
	if t.r3.truncated {
		flds = append(flds, fld{"file_", "ByteArray", "file", "content of the file behind the receiver's ReadWriter (cut by the truncate effect)"})
	}
	fmt.Fprintf(&sb, "/-- mutable locals of `%s` -/\n", fd.Name.Name)
	fmt.Fprintf(&sb, "structure %s where\n", stName)
	for _, f := range flds {
		fmt.Fprintf(&sb, "  %s : %s  -- %s\n", f.name, f.ty, f.doc)
	}
	if len(flds) == 0 {
		sb.WriteString("  mk ::\n")
	}
	sb.WriteString("\n")
	// result type
	var rts []string
	for j, r := range t.results {
		if t.r3.optRes[j] {
			rts = append(rts, "Option "+r.lean()) // (round 3) a pointer result for which some return says nil
		} else {
			rts = append(rts, r.lean())
		}
	}
	rt := strings.Join(rts, " × ")
	if len(rts) == 0 {
		rt = "Unit"
	}
	if t.hasEffects {
		if len(rts) > 1 {
			rt = "(" + rt + ")"
		}
		rt += " × List Seg"
	}
	if t.hasOut {
		switch {
		case len(rts) == 0:
			rt = "ByteArray"
		case len(rts) > 1:
			rt = "(" + rt + ") × ByteArray"
		default:
			rt += " × ByteArray"
		}
	}
	// (round 3) the final values of the assigned receiver fields are the last components of the result
	recvOut, recvOutTy, recvOutDoc := t.recvOuts()
	if len(recvOut) > 0 {
		rt = "(" + rt + ") × " + strings.Join(recvOutTy, " × ")
	}
	if t.r3.truncated {
		rt = "(" + rt + ") × ByteArray"
	}
	// loop helpers: only the parameters that occur
	argsFor := map[int][]param{}
	for i, l := range t.loops {
		l = strings.ReplaceAll(l, "@RT@", rt)
		l = strings.ReplaceAll(l, "@RECVOUT@", strings.Join(recvOut, ", "))
		for j := 0; j < i; j++ { // (round 3) a nested loop precedes the loop that contains it
			l = strings.ReplaceAll(l, "@ARGS"+fmt.Sprint(t.r3.loopIdx[j])+"@", argsOf(argsFor[j]))
		}
		var used []param
		for _, p := range all {
			// (assigned parameters live in the state: the helpers reach them through `st.`)
			if !p.mut && usesWord(l, p.name) {
				used = append(used, p)
			}
		}
		argsFor[i] = used
		l = strings.ReplaceAll(l, "@PARAMS@", declOf(used))
		l = strings.ReplaceAll(l, "@ARGS@", argsOf(used))
		sb.WriteString(l + "\n\n")
	}
	body := strings.Join(o.lines, "\n")
	for i := range t.loops {
		body = strings.ReplaceAll(body, "@ARGS"+fmt.Sprint(t.r3.loopIdx[i])+"@", argsOf(argsFor[i]))
	}
	body = strings.ReplaceAll(body, "@RECVOUT@", strings.Join(recvOut, ", "))
	if t.hasLoop {
		rt = "Option (" + rt + ")"
	}
	body = strings.ReplaceAll(body, "@FRT@", rt)
	var inits []string
	for _, f := range flds {
		inits = append(inits, f.name+" := "+f.init)
	}
	recv := ""
	if t.sp.recv != "" {
		recv = "(*" + t.sp.recv + ")."
	}
	fmt.Fprintf(&sb, "/-- `%s.%s%s`  (%s)\n", t.p.name, recv, fd.Name.Name, fset.Position(fd.Pos()).Filename[strings.LastIndex(fset.Position(fd.Pos()).Filename, "/")+1:])
	if rd := t.rangeDoc(); rd != "" {
		fmt.Fprintf(&sb, "    machine ranges of the arguments: %s", rd)
	} else {
		sb.WriteString("    (no integer arguments)")
	}
	if len(t.skipped) > 0 {
		var sk []string
		for _, f := range fd.Type.Params.List {
			for _, id := range f.Names {
				if why, ok := t.skipped[t.p.info.Defs[id]]; ok {
					sk = append(sk, id.Name+" "+why)
				}
			}
		}
		fmt.Fprintf(&sb, "\n    parameters abstracted by the effect table: %s", strings.Join(sk, ", "))
	}
	if t.hasOut {
		sb.WriteString("\n    the last component of the result is the byte string appended to the output buffer")
	}
	if len(recvOut) > 0 {
		sb.WriteString("\n    result = (Go results, final values of the assigned receiver fields " + strings.Join(recvOutDoc, ", ") + ")")
	}
	if t.r3.truncated {
		sb.WriteString("\n    the last component of the result is the content of the file after the function")
	}
	sb.WriteString(" -/\n")
	fmt.Fprintf(&sb, "def %s %s: %s :=\n", t.leanName, declOf(all), rt)
	if len(flds) > 0 {
		fmt.Fprintf(&sb, "  let st : %s := { %s }\n", stName, strings.Join(inits, ", "))
	}
	sb.WriteString(body + "\n")
	// register for later callers
	nparams := 0
	for _, f := range fd.Type.Params.List {
		nparams += len(f.Names)
		if len(f.Names) == 0 {
			nparams++
		}
	}
	key := fd.Name.Name
	if t.sp.recv != "" {
		key = t.sp.recv + "." + key
	}
	anyMut := false
	for _, p := range t.params {
		if p.k.k == kBytes && t.written[t.objOfParam(p)] {
			anyMut = true // writes into a caller's buffer: the effect is not part of the result
		}
	}
	pure := !t.hasEffects && !t.hasOut && !anyMut && len(t.results) > 0 && t.r3pure()
	t.p.fns[key] = &fnInfo{leanName: t.leanName, abstract: t.abstract, recvFields: t.recvFields, params: t.params,
		nparams: nparams, results: t.results, callable: !t.hasLoop && pure, loopy: t.hasLoop && pure, usesFile: t.usesFile()}
	return sb.String()
}

func (t *tr) objOfParam(p param) types.Object {
	for obj, i := range t.paramByObj {
		if t.params[i].name == p.name {
			return obj
		}
	}
	return nil
}

func copyMap(m map[types.Object]int) map[types.Object]int {
	r := map[types.Object]int{}
	for k, v := range m {
		r[k] = v
	}
	return r
}

// slice mode: one assignment's right-hand side (+ optionally the first if condition)
func (t *tr) sliceFn() string {
	fd := t.fd
	sl := t.sp.slice
	t.r3.recvMut = map[string]bool{} // slice mode has no state: receiver fields are the values at entry
	for _, p := range t.params {
		if p.mut {
			failAt(fd, "slice mode: parameter %s is assigned in the function", p.goName)
		}
	}
	var found []*ast.AssignStmt
	ast.Inspect(fd.Body, func(n ast.Node) bool {
		if a, ok := n.(*ast.AssignStmt); ok {
			for _, l := range a.Lhs {
				if src(l) == sl.assignTo {
					found = append(found, a)
				}
			}
		}
		if id, ok := n.(*ast.IncDecStmt); ok && src(id.X) == sl.assignTo {
			failAt(n, "slice mode: %s is also modified by ++/--", sl.assignTo)
		}
		return true
	})
	if len(found) != 1 {
		failAt(fd, "slice mode: expected exactly one assignment to %s in %s, found %d", sl.assignTo, fd.Name.Name, len(found))
	}
	a := found[0]
	if a.Tok != token.ASSIGN || len(a.Lhs) != 1 || len(a.Rhs) != 1 {
		failAt(a, "slice mode: assignment %s is not of the form %s = e", src(a), sl.assignTo)
	}
	x, k := t.expr(a.Rhs[0])
	if len(t.locals) != 0 {
		failAt(a, "slice mode: expression depends on locals")
	}
	lk := t.kindOf(t.typeOfExpr(a.Lhs[0]), a.Lhs[0])
	if lk != k {
		failAt(a, "slice mode: kind mismatch")
	}
	var sb strings.Builder
	emit := func(name, doc, body, ty string) {
		var used []param
		for _, p := range t.allParams() {
			if !usesWord(body, p.name) {
				continue
			}
			used = append(used, p)
		}
		fmt.Fprintf(&sb, "/-- %s -/\n", doc)
		fmt.Fprintf(&sb, "def %s %s: %s :=\n  %s\n", t.p.name+"."+name, declOf(used), ty, body)
	}
	var guard string
	if sl.guard != "" {
		if len(fd.Body.List) == 0 {
			failAt(fd, "slice mode: empty body")
		}
		ifs, ok := fd.Body.List[0].(*ast.IfStmt)
		if !ok || ifs.Init != nil {
			failAt(fd.Body.List[0], "slice mode: the first statement of %s is not a plain if", fd.Name.Name)
		}
		if !terminates(ifs.Body.List) || ifs.Else != nil {
			failAt(ifs, "slice mode: the first if of %s is not an early return", fd.Name.Name)
		}
		c, ck := t.expr(ifs.Cond)
		if ck.k != kBool {
			failAt(ifs.Cond, "condition")
		}
		guard = c.s
	}
	recv := "(*" + t.sp.recv + ")."
	if guard != "" {
		emit(sl.guard, fmt.Sprintf("`%s.%s%s`: condition of the early return `if %s { return … }`", t.p.name, recv, fd.Name.Name,
			src(fd.Body.List[0].(*ast.IfStmt).Cond)), guard, "Prop")
		sb.WriteString("\n")
	}
	emit(sl.lean, fmt.Sprintf("`%s.%s%s`: the value assigned by `%s`\n    machine ranges of the arguments: %s", t.p.name, recv, fd.Name.Name,
		src(a), t.rangeDoc()), x.s, k.lean())
	return sb.String()
}

// ---------------------------------------------------------------------------------------------

func translate(p *pkgInfo, sp spec) (text string, err error) {
	defer func() {
		if r := recover(); r != nil {
			if u, ok := r.(unsupported); ok {
				err = fmt.Errorf("%s", u.msg)
				return
			}
			panic(r)
		}
	}()
	key := sp.fn
	if sp.recv != "" {
		key = sp.recv + "." + sp.fn
	}
	fd, ok := p.funcs[key]
	if !ok {
		return "", fmt.Errorf("function %s not found in package %s", key, p.dir)
	}
	if p.dups[key] {
		return "", fmt.Errorf("function %s is declared more than once in package %s", key, p.dir)
	}
	t := &tr{p: p, sp: sp, leanName: p.name + "." + sp.fn}
	if sp.lean != "" {
		t.leanName = p.name + "." + sp.lean
	}
	t.setup(fd)
	if sp.slice != nil {
		return t.sliceFn(), nil
	}
	if sp.dt != "" {
		return t.dtMode(), nil // dt.go
	}
	return t.function(), nil
}

func leanStr(s string) string {
	s = strings.ReplaceAll(s, "\\", "\\\\")
	s = strings.ReplaceAll(s, "\"", "\\\"")
	s = strings.ReplaceAll(s, "\n", " ")
	return "\"" + s + "\""
}

func main() {
	if len(os.Args) != 3 {
		fmt.Fprintln(os.Stderr, "usage: trans <repo> <outfile>")
		os.Exit(1)
	}
	repo, outFile := os.Args[1], os.Args[2]
	pkgs := map[string]*pkgInfo{}
	var order []string
	failed := false
	var failures []string
	for _, sp := range whitelist {
		p, ok := pkgs[sp.pkg]
		if !ok {
			p = loadPkg(repo, sp.pkg)
			pkgs[sp.pkg] = p
			order = append(order, sp.pkg)
		}
		text, err := translate(p, sp)
		if err != nil {
			msg := fmt.Sprintf("trans: %s.%s: outside the supported Go subset: %v", sp.pkg, sp.fn, err)
			fmt.Fprintln(os.Stderr, msg)
			failures = append(failures, msg)
			failed = true
			continue
		}
		p.defs = append(p.defs, text)
	}
	// A function that left the supported subset (and every function that calls it) is simply NOT defined in the generated
	// file: the equality theorems about it no longer elaborate, so the obligations of the properties that restate them fail,
	// while the translations of the other functions - and the properties that depend only on those - are unaffected.
	// The file is regenerated as a whole on every run, so no stale definition can survive.
	var sb strings.Builder
	sb.WriteString("import XixiKV.Model.Varint\n")
	sb.WriteString("/- GENERATED by harness/cmd/trans from the Go sources on every run -- do not edit.\n")
	sb.WriteString("   Mechanical translation of whitelisted Go functions; see harness/cmd/trans/main.go for the\n")
	sb.WriteString("   Go subset, the effect / primitive tables and the integer semantics.  The equalities with the\n")
	sb.WriteString("   hand-written model are proved in XixiKV/Proofs/TransEq*.lean (rounds 1 to 3). -/\n")
	for _, m := range failures {
		fmt.Fprintf(&sb, "/- NOT TRANSLATED: %s -/\n", strings.ReplaceAll(m, "-/", "- /"))
	}
	sb.WriteString("namespace XixiKV.Generated.Trans\n\n")
	sb.WriteString("set_option linter.unusedVariables false -- (`fun st => some true` after a loop whose state is not used again)\n\n")
	sb.WriteString(prelude)
	sb.WriteString(dtPrelude) // dt.go
	for _, dir := range order {
		p := pkgs[dir]
		fmt.Fprintf(&sb, "\n/-! ## package %s (%s) -/\n", p.name, dir)
		// every non-negative integer constant of the package is emitted, not only the ones the translated functions mention
		// today: proofs and other definitions refer to them by name, and a rewrite that stops mentioning a constant in one
		// function must not make the name disappear
		if p.tpkg != nil {
			for _, name := range p.tpkg.Scope().Names() { // sorted
				c, ok := p.tpkg.Scope().Lookup(name).(*types.Const)
				if !ok || c.Val().Kind() != constant.Int || constant.Sign(c.Val()) < 0 {
					continue
				}
				if _, done := p.consts[name]; !done {
					p.consts[name] = c.Val().ExactString()
					p.constOrder = append(p.constOrder, name)
				}
			}
		}
		for _, c := range p.constOrder {
			v, _ := new(big.Int).SetString(p.consts[c], 10)
			fmt.Fprintf(&sb, "\n/-- Go constant `%s.%s` -/\nabbrev %s.%s : Nat := %s\n", p.name, c, p.name, mangle(c), v.String())
		}
		for _, s := range p.structOrd {
			fmt.Fprintf(&sb, "\n/-- Go struct `%s.%s` -/\nstructure %s.%s where\n", p.name, s, p.name, s)
			hasBytes := false
			for _, f := range p.structs[s] {
				fmt.Fprintf(&sb, "  %s : %s  -- %s\n", mangle(f.name), f.k.lean(), f.k.goName())
				if f.k.k == kBytes {
					hasBytes = true
				}
			}
			if hasBytes {
				sb.WriteString("deriving DecidableEq\n") // core has no Repr ByteArray
			} else {
				sb.WriteString("deriving Repr, DecidableEq\n")
			}
		}
		fmt.Fprintf(&sb, "\nnamespace %s\nend %s\n", p.name, p.name)
		for _, d := range p.defs {
			// definitions are emitted with fully qualified names; inside the text, names of the
			// package (constants, structures) are referenced through `open`
			sb.WriteString("\nsection\nopen " + p.name + "\n\n" + d + "\nend\n")
		}
	}
	sb.WriteString("\nend XixiKV.Generated.Trans\n")
	if err := os.MkdirAll(filepath.Dir(outFile), 0o755); err != nil {
		fmt.Fprintln(os.Stderr, "trans:", err)
		os.Exit(1)
	}
	old, err := os.ReadFile(outFile)
	if err == nil && string(old) == sb.String() {
		fmt.Printf("trans: %d functions, unchanged\n", len(whitelist)-len(failures))
		if failed {
			os.Exit(2)
		}
		return
	}
	if err := os.WriteFile(outFile, []byte(sb.String()), 0o644); err != nil {
		fmt.Fprintln(os.Stderr, "trans:", err)
		os.Exit(1)
	}
	fmt.Printf("trans: %d functions written to %s\n", len(whitelist)-len(failures), outFile)
	if failed {
		os.Exit(2)
	}
}
