#!/usr/bin/env python3
"""Robustness demo, round 4 (validLogRecord / validHintRecord).  Each experiment: reset the scratch worktree /tmp/pc-w
of /repo, apply ONE textual edit to datafile/log_record.go, check that the package still compiles (go vet), run `trans`
on the worktree and `lake build XixiKV.Proofs.TransEq5`; record the exit status of trans and whether the proofs still
build.  At the end the generated file is regenerated from the unchanged /repo.
usage: demo.py <clone>; the worktree must exist:  git -C /repo worktree add --detach /tmp/pc-w HEAD
(removed afterwards with: git -C /repo worktree remove --force /tmp/pc-w)
"""
import os, subprocess, sys

CLONE = sys.argv[1]
W = "/tmp/pc-w"
ENV = dict(os.environ, GOFLAGS="-mod=mod", GOPROXY="off", GOSUMDB="off", GOTOOLCHAIN="local")
TRANS = os.path.join(CLONE, "harness/bin/trans")
OUT = os.path.join(CLONE, "lean/XixiKV/Generated/Trans.lean")
F = "datafile/log_record.go"

K = "if n <= 0 || keySize < 0 || keySize > int64(len(data)) {"
V = "if n <= 0 || valueSize < 0 || valueSize > int64(len(data)) {"
FIN = "return int64(idx)+keySize+valueSize == int64(len(data))"
HINT = "\tfor i := 0; i < 4; i++ {\n\t\t_, n := binary.Uvarint(buf[idx:])\n\t\tif n <= 0 {\n\t\t\treturn false\n\t\t}\n\t\tidx += n\n\t}\n\treturn true"
# (id, expectation, description, old, new)   P = behaviour preserving, C = behaviour changing, U = leaves the subset
EXPS = [
 ("P1", "P", "validLogRecord: final test `a == b` -> `b == a`, sum reordered (`keySize+valueSize+int64(idx)`)",
  FIN, "return int64(len(data)) == keySize+valueSize+int64(idx)"),
 ("P2", "P", "validLogRecord: key guard `n <= 0 || keySize < 0 || keySize > L` -> `keySize > L || 0 > keySize || n < 1`",
  K, "if keySize > int64(len(data)) || 0 > keySize || n < 1 {"),
 ("P3", "P", "validLogRecord: `idx += n` -> `idx = n + idx` (three times)", None, None),
 ("P4", "P", "validLogRecord: `len(data) == 0` -> `len(data) < 1`; value guard split into two `if`s",
  None, None),
 ("P5", "P", "validLogRecord: final `return a == b` -> `if a != b { return false }; return true`",
  FIN, "if int64(idx)+keySize+valueSize != int64(len(data)) {\n\t\treturn false\n\t}\n\treturn true"),
 ("P6", "P", "validHintRecord: `for i := 0; i < 4; i++` -> `for i := 1; i <= 4; i++`",
  "for i := 0; i < 4; i++ {\n\t\t_, n := binary.Uvarint(buf[idx:])", "for i := 1; i <= 4; i++ {\n\t\t_, n := binary.Uvarint(buf[idx:])"),
 ("P7", "P", "validHintRecord: `n <= 0` -> `n < 1`, `idx += n` -> `idx = idx + n`",
  HINT, HINT.replace("n <= 0", "n < 1").replace("idx += n", "idx = idx + n")),
 ("C1", "C", "validLogRecord: final `==` -> `<=` (a payload longer than stated is accepted)",
  FIN, "return int64(idx)+keySize+valueSize <= int64(len(data))"),
 ("C2", "C", "validLogRecord: `n <= 0` dropped from the key guard", K, "if keySize < 0 || keySize > int64(len(data)) {"),
 ("C3", "C", "validLogRecord: `keySize < 0` dropped", K, "if n <= 0 || keySize > int64(len(data)) {"),
 ("C4", "C", "validLogRecord: `idx += n` after the value size dropped (the batch id is read at the value size)",
  V + "\n\t\treturn false\n\t}\n\tidx += n", V + "\n\t\treturn false\n\t}"),
 ("C5", "C", "validLogRecord: `n <= 0` -> `n < 0` in the batch-id test (a header that ends inside the batch id is accepted)",
  "_, n = binary.Uvarint(data[idx:])\n\tif n <= 0 {", "_, n = binary.Uvarint(data[idx:])\n\tif n < 0 {"),
 ("C6", "C", "validLogRecord: the empty-input test dropped (Go would panic on data[1:]; the translation slices to empty)",
  "if len(data) == 0 {\n\t\treturn false\n\t}\n\tidx := 1", "idx := 1"),
 ("C7", "C", "validLogRecord: `valueSize < 0` -> `valueSize <= 0` (records with an empty value, i.e. all tombstones, refused)",
  V, "if n <= 0 || valueSize <= 0 || valueSize > int64(len(data)) {"),
 ("C8", "C", "validLogRecord: `idx := 1` -> `idx := 0` (the type byte is read as the key size)", "idx := 1\n\tkeySize, n := binary.Varint(data[idx:])\n\tif n <= 0", "idx := 0\n\tkeySize, n := binary.Varint(data[idx:])\n\tif n <= 0"),
 ("C9", "C", "validHintRecord: `i < 4` -> `i < 3` (three varints checked)", "for i := 0; i < 4; i++ {\n\t\t_, n := binary.Uvarint(buf[idx:])", "for i := 0; i < 3; i++ {\n\t\t_, n := binary.Uvarint(buf[idx:])"),
 ("C10", "C", "validHintRecord: `idx += n` dropped (the first varint is checked four times)", HINT, HINT.replace("\t\tidx += n\n", "")),
 ("C11", "C", "validHintRecord: `n <= 0` -> `n < 0`", HINT, HINT.replace("n <= 0", "n < 0")),
 ("U1", "U", "validHintRecord: `continue` in the counted loop", HINT, HINT.replace("\t\tidx += n\n", "\t\tidx += n\n\t\tif idx > 100 {\n\t\t\tcontinue\n\t\t}\n")),
 ("U2", "U", "validHintRecord: the body writes the counter", HINT, HINT.replace("\t\tidx += n\n", "\t\tidx += n\n\t\ti += 0\n")),
 ("U3", "U", "validHintRecord: non-constant bound `i < len(buf)`", "for i := 0; i < 4; i++ {\n\t\t_, n := binary.Uvarint(buf[idx:])", "for i := 0; i < len(buf); i++ {\n\t\t_, n := binary.Uvarint(buf[idx:])"),
 ("U4", "U", "validHintRecord: step `i += 2`", "for i := 0; i < 4; i++ {\n\t\t_, n := binary.Uvarint(buf[idx:])", "for i := 0; i < 4; i += 2 {\n\t\t_, n := binary.Uvarint(buf[idx:])"),
]

def sh(cmd, cwd=None):
    r = subprocess.run(cmd, cwd=cwd, env=ENV, stdout=subprocess.PIPE, stderr=subprocess.STDOUT, text=True)
    return r.returncode, r.stdout

def body(text, name):
    a = text.index("func " + name + "(")
    b = text.index("\n}\n", a) + 3
    return a, b

def edit(text, eid, old, new):
    if eid == "P3":
        a, b = body(text, "validLogRecord")
        f = text[a:b]
        assert f.count("idx += n") == 3
        return text[:a] + f.replace("idx += n", "idx = n + idx") + text[b:]
    if eid == "P4":
        a, b = body(text, "validLogRecord")
        f = text[a:b]
        f = f.replace("if len(data) == 0 {", "if len(data) < 1 {")
        f = f.replace(V, "if n <= 0 {\n\t\treturn false\n\t}\n\tif valueSize < 0 || valueSize > int64(len(data)) {")
        return text[:a] + f + text[b:]
    name = "validHintRecord" if "Hint" in [e for e in EXPS if e[0] == eid][0][2] else "validLogRecord"
    a, b = body(text, name)
    f = text[a:b]
    assert f.count(old) == 1, (eid, f.count(old))
    return text[:a] + f.replace(old, new) + text[b:]

def main():
    log = []
    for (eid, exp, desc, old, new) in EXPS:
        sh(["git", "checkout", "--", "."], cwd=W)
        p = os.path.join(W, F)
        t = open(p).read()
        t2 = edit(t, eid, old, new)
        assert t2 != t, eid
        open(p, "w").write(t2)
        rc, o = sh(["go", "vet", "./datafile/"], cwd=W)
        if rc != 0:
            log.append(f"{eid} [{exp}] {desc}\n    go vet FAILED: {o.strip()[:300]}")
            continue
        rc, o = sh([TRANS, W, OUT])
        line = f"{eid} [{exp}] {desc}\n    trans: exit {rc}"
        if rc != 0:
            line += "  (" + o.strip().splitlines()[0][:260] + ")"
            log.append(line); print(line, flush=True)
            continue
        rc, o = sh(["lake", "build", "XixiKV.Proofs.TransEq5"], cwd=os.path.join(CLONE, "lean"))
        if rc == 0:
            line += ";  lake build TransEq5: OK (proofs unchanged)"
        else:
            errs = [l for l in o.splitlines() if l.startswith("error:") and "TransEq" in l]
            mods = sorted(set(l.split(":")[1].strip().split("/")[-1] for l in errs))
            line += f";  lake build TransEq5: FAILS ({len(errs)} errors in {', '.join(mods)}; first: {errs[0][7:150] if errs else o.strip()[-200:]})"
        log.append(line); print(line, flush=True)
    sh(["git", "checkout", "--", "."], cwd=W)
    rc, o = sh([TRANS, "/repo", OUT])
    log.append("restored: " + o.strip())
    rc, o = sh(["lake", "build", "XixiKV.Proofs.TransEq5"], cwd=os.path.join(CLONE, "lean"))
    log.append("lake build TransEq5 on the unchanged /repo: " + ("OK" if rc == 0 else "FAILS"))
    open(os.path.join(CLONE, "harness/cmd/trans/demo4/demo4.log"), "w").write("\n".join(log) + "\n")
    print(log[-2]); print(log[-1])

main()
