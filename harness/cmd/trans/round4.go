// Round 4: counted loops `for i := 0; i < N; i++ { … }` with a constant bound N.
//
// Such a loop is rewritten, on the AST, into the two statements
//
//	i := 0
//	for i < N { …; i++ }
//
// and the second one goes through the ordinary loop translation (main.go: loop) with the fuel N + 1
// computed here instead of being looked up in the whitelist table.  The rewriting is exact under the
// conditions checked below:
//   - the init statement is `i := c` for ONE identifier and an integer constant c (0 ≤ c),
//   - the condition is `i < N` or `i <= N` for a constant N (the fuel is N - c + 1, resp. N - c + 2),
//   - the post statement is `i++`,
//   - the body has no `continue` (after the rewriting a `continue` would skip the `i++`) — `break` and
//     `return` are fine — and does not write i or take its address,
//   - i is not used after the loop (Go scopes it to the `for` statement; the translation state is flat).
//     The type checker guarantees this: a later `i` is a different object, and `declare` gives it a
//     fresh Lean name or rejects the clash.
//
// Everything else about the loop (no nesting, no labels, no switch/defer in the body) is checked by loop.
package main

import (
	"fmt"
	"go/ast"
	"go/constant"
	"go/token"
	"go/types"
)

// constInt returns the value of an integer constant expression
func (t *tr) constInt(e ast.Expr) (int64, bool) {
	tv, ok := t.p.info.Types[e]
	if !ok || tv.Value == nil || tv.Value.Kind() != constant.Int {
		return 0, false
	}
	return constant.Int64Val(tv.Value)
}

// countedLoop checks that v is a counted loop of the supported form and returns the init statement,
// the rewritten loop (`for cond { body; post }`) and the fuel.
func (t *tr) countedLoop(v *ast.ForStmt) (ast.Stmt, *ast.ForStmt, string) {
	const form = "only `for cond { … }`, `for { … }` and counted loops `for i := c; i < N; i++ { … }` with constants c, N are in the subset"
	init, ok := v.Init.(*ast.AssignStmt)
	if !ok || init.Tok != token.DEFINE || len(init.Lhs) != 1 || len(init.Rhs) != 1 || v.Cond == nil || v.Post == nil {
		failAt(v, form)
	}
	id, ok := init.Lhs[0].(*ast.Ident)
	if !ok || id.Name == "_" {
		failAt(v, form)
	}
	obj := t.p.info.Defs[id]
	if obj == nil {
		failAt(v, form)
	}
	if b, ok := obj.Type().Underlying().(*types.Basic); !ok || b.Info()&types.IsInteger == 0 {
		failAt(v, "the counter of a counted loop must be an integer")
	}
	c, ok := t.constInt(init.Rhs[0])
	if !ok || c < 0 {
		failAt(v, form)
	}
	cond, ok := v.Cond.(*ast.BinaryExpr)
	if !ok || (cond.Op != token.LSS && cond.Op != token.LEQ) {
		failAt(v, form)
	}
	cid, ok := cond.X.(*ast.Ident)
	if !ok || t.p.info.Uses[cid] != obj {
		failAt(v, form)
	}
	n, ok := t.constInt(cond.Y)
	if !ok || n < 0 || n > 1<<20 {
		failAt(v, form)
	}
	post, ok := v.Post.(*ast.IncDecStmt)
	if !ok || post.Tok != token.INC {
		failAt(v, form)
	}
	pid, ok := post.X.(*ast.Ident)
	if !ok || t.p.info.Uses[pid] != obj {
		failAt(v, form)
	}
	bad := ""
	ast.Inspect(v.Body, func(x ast.Node) bool {
		switch y := x.(type) {
		case *ast.BranchStmt:
			if y.Tok == token.CONTINUE {
				bad = "`continue` in the body of a counted loop"
			}
		case *ast.FuncLit:
			bad = "function literal in the body of a counted loop"
		}
		return bad == ""
	})
	if bad == "" && t.writesCounter(v.Body, obj) {
		bad = "the body of a counted loop writes its counter " + id.Name
	}
	if bad != "" {
		failAt(v, "%s is outside the subset", bad)
	}
	iters := n - c
	if cond.Op == token.LEQ {
		iters++
	}
	if iters < 0 {
		iters = 0
	}
	body := &ast.BlockStmt{Lbrace: v.Body.Lbrace, Rbrace: v.Body.Rbrace}
	body.List = append(append([]ast.Stmt{}, v.Body.List...), post)
	loop := &ast.ForStmt{For: v.For, Cond: v.Cond, Body: body}
	// iters iterations, one more step for the failing test
	return init, loop, fmt.Sprint(iters + 1)
}

// writesCounter: an assignment, ++/--, or & of the object below n
func (t *tr) writesCounter(n ast.Node, obj types.Object) bool {
	found := false
	is := func(e ast.Expr) bool {
		id, ok := e.(*ast.Ident)
		return ok && (t.p.info.Uses[id] == obj || t.p.info.Defs[id] == obj)
	}
	ast.Inspect(n, func(x ast.Node) bool {
		switch y := x.(type) {
		case *ast.AssignStmt:
			for _, l := range y.Lhs {
				if is(l) {
					found = true
				}
			}
		case *ast.IncDecStmt:
			if is(y.X) {
				found = true
			}
		case *ast.UnaryExpr:
			if y.Op == token.AND && is(y.X) {
				found = true
			}
		case *ast.RangeStmt:
			if (y.Key != nil && is(y.Key)) || (y.Value != nil && is(y.Value)) {
				found = true
			}
		}
		return !found
	})
	return found
}
