// dt.go — translator round 3b: what the redis-layer codecs of /repo/datatype (meta.go, and the value
// layout of Set / Get in types.go) need on top of main.go.  Everything here is table-like, hand-written and
// trusted in the same way as the tables of main.go:
//
//   - reserved names: Go identifiers that would shadow Lean core names once the package namespace is
//     opened (`List`, `String`, … are constants of package datatype) get the `_` suffix of `mangle`;
//   - prelude (dtPrelude): `le64bytes` / `le32bytes` / `le16bytes` (the bytes binary.LittleEndian.PutUintN
//     writes) and `writeAt` (a write into a window b[lo:hi] of a written buffer);
//   - write statements (dtWriteStmt, hooked into `simple`; dtWriteDest, hooked into the pre-scan `writeSites`):
//     copy(b[lo:hi], e) / copy(b[lo:], e) / copy(b[:hi], e)         ↦ b := writeAt b lo hi e
//     binary.LittleEndian.PutUint64/32/16(dst, v), dst = b | b[lo:hi] | b[lo:] | b[:hi]
//     ↦ b := writeAt b lo hi (leNNbytes v)
//     where b is a written []byte variable (missing bounds: 0 and len(b));
//   - effect table entries (appended to `effects`):
//     scoreText   M_X := utils.Float64ToBytes(M_RECV.score)   ↦ local M_X := abstract parameter
//     `Float64ToBytes_<recv>_score : ByteArray` (floats are outside the subset: the decimal text
//     strconv.FormatFloat(score,'f',-1,64) of the receiver's float64 field is an unspecified byte string)
//     and the entries for `Set` / `Get` (dbGet, clock primitives; see below);
//   - receiver fields of type []byte (one-line change in main.go's `expr`): extra parameters
//     `recv_field : ByteArray`, read only (assigning a receiver field is outside the subset anyway).
package main

import (
	"go/ast"
	"go/types"
	"strings"
)

func init() {
	for _, n := range []string{"List", "String", "Nat", "Int", "Option", "Array", "ByteArray", "Bool", "Unit", "Char",
		"Float", "Fin", "Sum", "Prod", "Except", "IO", "Id", "Empty", "True", "False", "And", "Or", "Not", "Eq", "Ne",
		"UInt8", "UInt16", "UInt32", "UInt64", "USize", "Ctl", "Seg", "Subtype", "Sigma", "Decidable", "Function",
		"Std", "Lean", "Nonempty", "Inhabited", "Ordering", "Substring", "Thunk", "Task", "Name", "Exists"} {
		leanReserved[n] = true
	}
	effects = append(effects, dtEffects...)
}

// fixed Lean text behind main.go's prelude
const dtPrelude = `
/-! ## prelude, part 2 (dt.go): fixed-width little-endian writes, writes into a window of a buffer -/

/-- the 8 bytes ` + "`binary.LittleEndian.PutUint64(b, v)`" + ` writes: ` + "`b[i] = byte(v >> (8*i))`" + ` (v < 2^64) -/
def le64bytes (v : Nat) : ByteArray :=
  ⟨#[UInt8.ofNat v, UInt8.ofNat (v >>> 8), UInt8.ofNat (v >>> 16), UInt8.ofNat (v >>> 24),
     UInt8.ofNat (v >>> 32), UInt8.ofNat (v >>> 40), UInt8.ofNat (v >>> 48), UInt8.ofNat (v >>> 56)]⟩
/-- the 4 bytes ` + "`binary.LittleEndian.PutUint32(b, v)`" + ` writes (v < 2^32) -/
def le32bytes (v : Nat) : ByteArray :=
  ⟨#[UInt8.ofNat v, UInt8.ofNat (v >>> 8), UInt8.ofNat (v >>> 16), UInt8.ofNat (v >>> 24)]⟩
/-- the 2 bytes ` + "`binary.LittleEndian.PutUint16(b, v)`" + ` writes (v < 2^16) -/
def le16bytes (v : Nat) : ByteArray := ⟨#[UInt8.ofNat v, UInt8.ofNat (v >>> 8)]⟩

/-- write ` + "`s`" + ` into the window ` + "`b[lo:hi]`" + ` of a buffer: ` + "`copy(b[lo:hi], s)`" + ` (at most ` + "`hi - lo`" + ` bytes are copied) and
    ` + "`PutUintN(b[lo:hi], v)`" + ` (Go panics when the window is shorter than N/8 bytes; here the write is cut off at
    ` + "`hi`" + ` instead, which no model function does).  Agrees with Go for ` + "`lo ≤ hi ≤ len(b)`" + ` (otherwise Go panics,
    or — up to ` + "`cap(b)`" + ` — writes behind ` + "`len(b)`" + `; not modelled) -/
def writeAt (b : ByteArray) (lo hi : Nat) (s : ByteArray) : ByteArray := putAt b lo (s.extract 0 (hi - lo))
`

// fixed-width little-endian stores of encoding/binary
var dtPuts = []struct {
	pattern string
	lean    string
	k       kind
}{
	{"binary.LittleEndian.PutUint64(M_DST, M_V)", "le64bytes", kU64},
	{"binary.LittleEndian.PutUint32(M_DST, M_V)", "le32bytes", kU32},
	{"binary.LittleEndian.PutUint16(M_DST, M_V)", "le16bytes", kU16},
}

// dtWriteDest: the destination expression of a PutUintN call (pre-scan for written buffers); nil if v is none
func dtWriteDest(v *ast.CallExpr) ast.Expr {
	for _, p := range dtPuts {
		b := map[string]ast.Node{}
		if match(parseExpr(p.pattern), v, b) {
			return b["M_DST"].(ast.Expr)
		}
	}
	return nil
}

// window: a write destination b | b[lo:hi] | b[lo:] | b[:hi] over a written []byte variable b
func (t *tr) window(e ast.Expr) (name, cur, lo, hi string) {
	e = ast.Unparen(e)
	if se, ok := e.(*ast.SliceExpr); ok {
		if se.Slice3 {
			failAt(e, "3-index slice")
		}
		name, cur = t.writeTarget(se.X) // a variable: slices of slices are outside the subset
		lo, hi = "0", cur+".size"
		if se.Low != nil {
			lo = t.natArg(se.Low)
		}
		if se.High != nil {
			hi = t.natArg(se.High)
		}
		return
	}
	name, cur = t.writeTarget(e)
	return name, cur, "0", cur + ".size"
}

// dtWriteStmt: an expression statement that writes into a window of a written buffer
func (t *tr) dtWriteStmt(ce *ast.CallExpr) (name, rhs string, ok bool) {
	if id, isId := ce.Fun.(*ast.Ident); isId && id.Name == "copy" && len(ce.Args) == 2 {
		if _, isBuiltin := t.p.info.Uses[id].(*types.Builtin); !isBuiltin {
			return "", "", false
		}
		if _, isSlice := ast.Unparen(ce.Args[0]).(*ast.SliceExpr); !isSlice {
			return "", "", false // copy(b, e): main.go
		}
		name, cur, lo, hi := t.window(ce.Args[0])
		x := t.bytesExpr(ce.Args[1])
		return name, "writeAt " + cur + " " + lo + " " + hi + " " + par(x), true
	}
	for _, p := range dtPuts {
		b := map[string]ast.Node{}
		if !match(parseExpr(p.pattern), ce, b) {
			continue
		}
		t.dtCheckPkg(ce, "binary", "encoding/binary")
		name, cur, lo, hi := t.window(b["M_DST"].(ast.Expr))
		v := t.exprWant(b["M_V"].(ast.Expr), p.k)
		return name, "writeAt " + cur + " " + lo + " " + hi + " (" + p.lean + " " + par(v) + ")", true
	}
	return "", "", false
}

// dtCheckPkg: the leftmost identifier of a call's function expression must be the import of the given path
// (the patterns of the tables are matched syntactically)
func (t *tr) dtCheckPkg(ce *ast.CallExpr, ident, path string) {
	var e ast.Expr = ce.Fun
	for {
		switch v := e.(type) {
		case *ast.SelectorExpr:
			e = v.X
			continue
		case *ast.CallExpr:
			e = v.Fun
			continue
		}
		break
	}
	id, ok := e.(*ast.Ident)
	if !ok || id.Name != ident {
		failAt(ce, "%s: expected a call into package %s", src(ce), path)
	}
	pn, ok := t.p.info.Uses[id].(*types.PkgName)
	if !ok || !(pn.Imported().Path() == path || strings.HasSuffix(pn.Imported().Path(), "/"+path)) {
		failAt(ce, "%s: %s is not the import of %s", src(ce), ident, path)
	}
}

var dtEffects = []effect{
	{
		// the decimal text of the receiver's float64 field `score`; floats are outside the subset, the text
		// is an abstract parameter of the generated definition (a fresh byte string, not a view of anything)
		name:    "scoreText",
		pattern: `M_X := utils.Float64ToBytes(M_RECV.score)`,
		apply: func(t *tr, b map[string]ast.Node, o *out, ind string) {
			id, ok := b["M_X"].(*ast.Ident)
			if !ok {
				failAt(b["M_X"], "effect scoreText: target is not an identifier")
			}
			if t.inLoop {
				failAt(id, "effect scoreText inside a loop is outside the subset")
			}
			var call *ast.CallExpr
			ast.Inspect(t.fd.Body, func(n ast.Node) bool {
				if as, ok := n.(*ast.AssignStmt); ok && len(as.Lhs) == 1 && as.Lhs[0] == ast.Expr(id) {
					call = as.Rhs[0].(*ast.CallExpr)
				}
				return call == nil
			})
			if call == nil {
				failAt(id, "effect scoreText: internal: call not found")
			}
			t.dtCheckPkg(call, "utils", "utils")
			name := t.declare(id, kind{k: kBytes})
			a := absParam{"Float64ToBytes_" + t.recvName + "_score", "ByteArray",
				"Float64ToBytes_" + t.recvName + "_score = utils.Float64ToBytes(" + t.recvName + ".score), the decimal text of the receiver's float64 field (unspecified bytes)"}
			t.useAbstract(a)
			o.add(ind, "let st : "+t.leanName+".St := { st with "+name+" := "+a.name+" }")
		},
	},
}
