// dt.go — translator round 3b: what the redis-layer codecs of /repo/datatype (meta.go, and the value
// layout of Set / Get in types.go) need on top of main.go.  Everything here is table-like, hand-written and
// trusted in the same way as the tables of main.go:
//
//   - reserved names: Go identifiers that would shadow Lean core names once the package namespace is
//     opened (`List`, `String`, … are constants of package datatype) get the `_` suffix of `mangle`;
//   - prelude (dtPrelude): `le64bytes` / `le32bytes` / `le16bytes` (the bytes binary.LittleEndian.PutUintN
//     writes) and `writeAt` (a write into a window b[lo:hi] of a written buffer);
//   - write statements (dtWriteStmt, hooked into `simple`; dtWriteDest, hooked into the pre-scan `writeSites`):
//     copy(b[lo:hi], e) / copy(b[lo:], e) / copy(b[:hi], e)         ↦ b := writeAt b lo hi e
//     binary.LittleEndian.PutUint64/32/16(dst, v), dst = b | b[lo:hi] | b[lo:] | b[:hi]
//     ↦ b := writeAt b lo hi (leNNbytes v)
//     where b is a written []byte variable (missing bounds: 0 and len(b));
//   - effect table entries (appended to `effects`):
//     scoreText   M_X := utils.Float64ToBytes(M_RECV.score)   ↦ local M_X := abstract parameter
//     `Float64ToBytes_<recv>_score : ByteArray` (floats are outside the subset: the decimal text
//     strconv.FormatFloat(score,'f',-1,64) of the receiver's float64 field is an unspecified byte string)
//     nilNoop     if M_P == nil { return nil }   (M_P a []byte parameter, the function returns one error)
//     ↦ nothing: THE BRANCH IS DROPPED, the generated definition describes the calls with M_P != nil
//     (nil and empty slices are the same ByteArray, so the test cannot be represented);
//     dbGet       M_V, M_ERR := M_RECV.db.Get(M_K) ; if M_ERR != nil { return nil, M_ERR }
//     ↦ local M_V := db_Get M_K with the abstract parameter `db_Get : ByteArray → ByteArray` (what the engine
//     returns for a key);
//     THE ERROR BRANCH IS DROPPED, the generated definition describes the calls in which the engine finds
//     the key;
//   - clock reads (dtCall, hooked into `call`): time.Now().UnixNano() ↦ abstract parameter
//     `time_Now_UnixNano : Int`, time.Now().Add(d).UnixNano() ↦ `time_Now_Add_UnixNano d` with the abstract
//     parameter `time_Now_Add_UnixNano : Int → Int`; only in loop-free functions that read the clock at
//     exactly one place (one parameter = one reading);
//   - mode "putArgs" (dtMode, spec.dt): a method whose last statement is `return M_RECV.db.Put(M_K, M_V)` —
//     its only use of M_RECV.db — is translated as if it ended in `return M_K, M_V`: the generated
//     definition yields the arguments of the engine call (`Set`: the key and the encoded string value);
//   - receiver fields of type []byte (one-line change in main.go's `expr`): extra parameters
//     `recv_field : ByteArray`, read only (assigning a receiver field is outside the subset anyway); the
//     receiver-field parameters are listed in the declaration order of the struct (dtSortRecvFields).
package main

import (
	"go/ast"
	"go/types"
	"sort"
	"strings"
)

func init() {
	for _, n := range []string{"List", "String", "Nat", "Int", "Option", "Array", "ByteArray", "Bool", "Unit", "Char",
		"Float", "Fin", "Sum", "Prod", "Except", "IO", "Id", "Empty", "True", "False", "And", "Or", "Not", "Eq", "Ne",
		"UInt8", "UInt16", "UInt32", "UInt64", "USize", "Ctl", "Seg", "Subtype", "Sigma", "Decidable", "Function",
		"Std", "Lean", "Nonempty", "Inhabited", "Ordering", "Substring", "Thunk", "Task", "Name", "Exists"} {
		leanReserved[n] = true
	}
	effects = append(effects, dtEffects...)
}

// fixed Lean text behind main.go's prelude
const dtPrelude = `
/-! ## prelude, part 2 (dt.go): fixed-width little-endian writes, writes into a window of a buffer -/

/-- the 8 bytes ` + "`binary.LittleEndian.PutUint64(b, v)`" + ` writes: ` + "`b[i] = byte(v >> (8*i))`" + ` (v < 2^64) -/
def le64bytes (v : Nat) : ByteArray :=
  ⟨#[UInt8.ofNat v, UInt8.ofNat (v >>> 8), UInt8.ofNat (v >>> 16), UInt8.ofNat (v >>> 24),
     UInt8.ofNat (v >>> 32), UInt8.ofNat (v >>> 40), UInt8.ofNat (v >>> 48), UInt8.ofNat (v >>> 56)]⟩
/-- the 4 bytes ` + "`binary.LittleEndian.PutUint32(b, v)`" + ` writes (v < 2^32) -/
def le32bytes (v : Nat) : ByteArray :=
  ⟨#[UInt8.ofNat v, UInt8.ofNat (v >>> 8), UInt8.ofNat (v >>> 16), UInt8.ofNat (v >>> 24)]⟩
/-- the 2 bytes ` + "`binary.LittleEndian.PutUint16(b, v)`" + ` writes (v < 2^16) -/
def le16bytes (v : Nat) : ByteArray := ⟨#[UInt8.ofNat v, UInt8.ofNat (v >>> 8)]⟩

/-- write ` + "`s`" + ` into the window ` + "`b[lo:hi]`" + ` of a buffer: ` + "`copy(b[lo:hi], s)`" + ` (at most ` + "`hi - lo`" + ` bytes are copied) and
    ` + "`PutUintN(b[lo:hi], v)`" + ` (Go panics when the window is shorter than N/8 bytes; here the write is cut off at
    ` + "`hi`" + ` instead, which no model function does).  Agrees with Go for ` + "`lo ≤ hi ≤ len(b)`" + ` (otherwise Go panics,
    or — up to ` + "`cap(b)`" + ` — writes behind ` + "`len(b)`" + `; not modelled) -/
def writeAt (b : ByteArray) (lo hi : Nat) (s : ByteArray) : ByteArray := putAt b lo (s.extract 0 (hi - lo))
`

// fixed-width little-endian stores of encoding/binary
var dtPuts = []struct {
	pattern string
	lean    string
	k       kind
}{
	{"binary.LittleEndian.PutUint64(M_DST, M_V)", "le64bytes", kU64},
	{"binary.LittleEndian.PutUint32(M_DST, M_V)", "le32bytes", kU32},
	{"binary.LittleEndian.PutUint16(M_DST, M_V)", "le16bytes", kU16},
}

// dtWriteDest: the destination expression of a PutUintN call (pre-scan for written buffers); nil if v is none
func dtWriteDest(v *ast.CallExpr) ast.Expr {
	for _, p := range dtPuts {
		b := map[string]ast.Node{}
		if match(parseExpr(p.pattern), v, b) {
			return b["M_DST"].(ast.Expr)
		}
	}
	return nil
}

// window: a write destination b | b[lo:hi] | b[lo:] | b[:hi] over a written []byte variable b
func (t *tr) window(e ast.Expr) (name, cur, lo, hi string) {
	e = ast.Unparen(e)
	if se, ok := e.(*ast.SliceExpr); ok {
		if se.Slice3 {
			failAt(e, "3-index slice")
		}
		name, cur = t.writeTarget(se.X) // a variable: slices of slices are outside the subset
		lo, hi = "0", cur+".size"
		if se.Low != nil {
			lo = t.natArg(se.Low)
		}
		if se.High != nil {
			hi = t.natArg(se.High)
		}
		return
	}
	name, cur = t.writeTarget(e)
	return name, cur, "0", cur + ".size"
}

// dtWriteStmt: an expression statement that writes into a window of a written buffer
func (t *tr) dtWriteStmt(ce *ast.CallExpr) (name, rhs string, ok bool) {
	if id, isId := ce.Fun.(*ast.Ident); isId && id.Name == "copy" && len(ce.Args) == 2 {
		if _, isBuiltin := t.p.info.Uses[id].(*types.Builtin); !isBuiltin {
			return "", "", false
		}
		if _, isSlice := ast.Unparen(ce.Args[0]).(*ast.SliceExpr); !isSlice {
			return "", "", false // copy(b, e): main.go
		}
		name, cur, lo, hi := t.window(ce.Args[0])
		x := t.bytesExpr(ce.Args[1])
		return name, "writeAt " + cur + " " + lo + " " + hi + " " + par(x), true
	}
	for _, p := range dtPuts {
		b := map[string]ast.Node{}
		if !match(parseExpr(p.pattern), ce, b) {
			continue
		}
		t.dtCheckPkg(ce, "binary", "encoding/binary")
		name, cur, lo, hi := t.window(b["M_DST"].(ast.Expr))
		v := t.exprWant(b["M_V"].(ast.Expr), p.k)
		return name, "writeAt " + cur + " " + lo + " " + hi + " (" + p.lean + " " + par(v) + ")", true
	}
	return "", "", false
}

// dtCheckPkg: the leftmost identifier of a call's function expression must be the import of the given path
// (the patterns of the tables are matched syntactically)
func (t *tr) dtCheckPkg(ce *ast.CallExpr, ident, path string) {
	var e ast.Expr = ce.Fun
	for {
		switch v := e.(type) {
		case *ast.SelectorExpr:
			e = v.X
			continue
		case *ast.CallExpr:
			e = v.Fun
			continue
		}
		break
	}
	id, ok := e.(*ast.Ident)
	if !ok || id.Name != ident {
		failAt(ce, "%s: expected a call into package %s", src(ce), path)
	}
	pn, ok := t.p.info.Uses[id].(*types.PkgName)
	if !ok || !(pn.Imported().Path() == path || strings.HasSuffix(pn.Imported().Path(), "/"+path)) {
		failAt(ce, "%s: %s is not the import of %s", src(ce), ident, path)
	}
}

// dtSortRecvFields: the extra parameters standing for receiver fields, in the declaration order of the struct
// (first-use order would make the argument order of the generated definition depend on harmless rewrites)
func (t *tr) dtSortRecvFields() {
	if t.recvObj == nil || len(t.recvFields) < 2 {
		return
	}
	ty := types.Unalias(t.recvObj.Type())
	if ptr, ok := ty.(*types.Pointer); ok {
		ty = types.Unalias(ptr.Elem())
	}
	st, ok := ty.Underlying().(*types.Struct)
	if !ok {
		return
	}
	pos := map[string]int{}
	for i := 0; i < st.NumFields(); i++ {
		pos[st.Field(i).Name()] = i
	}
	first := func(f string) string { // (round 3: a path `dataFile.lastBlockID` sorts with its first component)
		if i := strings.Index(f, "."); i >= 0 {
			return f[:i]
		}
		return f
	}
	sort.SliceStable(t.recvFields, func(i, j int) bool { return pos[first(t.recvFields[i].field)] < pos[first(t.recvFields[j].field)] })
}

// ---- clock reads -------------------------------------------------------------------------------

var (
	absNow    = absParam{"time_Now_UnixNano", "Int", "time_Now_UnixNano = the value of time.Now().UnixNano() at the function's only clock reading"}
	absNowAdd = absParam{"time_Now_Add_UnixNano", "Int → Int", "time_Now_Add_UnixNano d = the value of time.Now().Add(d).UnixNano() at the function's only clock reading"}
)

// dtCall: time.Now().UnixNano() and time.Now().Add(d).UnixNano()
func (t *tr) dtCall(v *ast.CallExpr) (lx, []kind, bool) {
	b := map[string]ast.Node{}
	isNow := match(parseExpr("time.Now().UnixNano()"), v, b)
	isAdd := !isNow && match(parseExpr("time.Now().Add(M_D).UnixNano()"), v, b)
	if !isNow && !isAdd {
		return lx{}, nil, false
	}
	t.dtCheckPkg(v, "time", "time")
	// one abstract parameter stands for one reading of the clock
	n := 0
	ast.Inspect(t.fd.Body, func(x ast.Node) bool {
		if ce, ok := x.(*ast.CallExpr); ok && match(parseExpr("time.Now()"), ce, map[string]ast.Node{}) {
			n++
		}
		return true
	})
	hasLoop := false
	ast.Inspect(t.fd.Body, func(x ast.Node) bool {
		switch x.(type) {
		case *ast.ForStmt, *ast.RangeStmt:
			hasLoop = true
		}
		return true
	})
	if n != 1 || hasLoop || t.inLoop {
		failAt(v, "clock reading %s: only one time.Now() per function, and none in a function with loops, is inside the subset", src(v))
	}
	if isNow {
		t.useAbstract(absNow)
		return lx{s: absNow.name, atom: true}, []kind{kI}, true
	}
	d := t.exprWant(b["M_D"].(ast.Expr), kI)
	t.useAbstract(absNowAdd)
	return app(absNowAdd.name + " " + par(d)), []kind{kI}, true
}

// ---- mode putArgs --------------------------------------------------------------------------------

func (t *tr) dtMode() string {
	if t.sp.dt != "putArgs" {
		failAt(t.fd, "unknown dt mode %q", t.sp.dt)
	}
	fd := t.fd
	n := len(fd.Body.List)
	if n == 0 || t.recvObj == nil {
		failAt(fd, "putArgs mode: %s is not a method with a body", fd.Name.Name)
	}
	ret, ok := fd.Body.List[n-1].(*ast.ReturnStmt)
	b := map[string]ast.Node{}
	if !ok || !match(parseStmts("return M_RECV.db.Put(M_K, M_V)")[0], ret, b) {
		failAt(fd.Body.List[n-1], "putArgs mode: the last statement of %s is not `return recv.db.Put(k, v)`", fd.Name.Name)
	}
	if id, isId := b["M_RECV"].(*ast.Ident); !isId || t.p.info.Uses[id] != t.recvObj {
		failAt(ret, "putArgs mode: %s is not the receiver", src(b["M_RECV"]))
	}
	// the engine is used nowhere else; the results are one error (that of Put)
	uses := 0
	ast.Inspect(fd.Body, func(x ast.Node) bool {
		if id, ok := x.(*ast.Ident); ok && t.p.info.Uses[id] == t.recvObj {
			uses++
		}
		return true
	})
	if uses != 1 {
		failAt(fd, "putArgs mode: the receiver of %s is used %d times (expected: only in the final db.Put)", fd.Name.Name, uses)
	}
	if fd.Type.Results == nil || len(fd.Type.Results.List) != 1 || len(fd.Type.Results.List[0].Names) > 0 ||
		t.kindOf(t.p.info.Types[fd.Type.Results.List[0].Type].Type, fd).k != kErr {
		failAt(fd, "putArgs mode: %s does not return exactly one error", fd.Name.Name)
	}
	// a type expression `[]byte` known to go/types, for the two synthetic results
	var bytesTy ast.Expr
	for _, f := range fd.Type.Params.List {
		if tv, ok := t.p.info.Types[f.Type]; ok && tv.Type != nil {
			if sl, ok := tv.Type.Underlying().(*types.Slice); ok {
				if bt, ok := sl.Elem().Underlying().(*types.Basic); ok && bt.Kind() == types.Uint8 {
					bytesTy = f.Type
				}
			}
		}
	}
	if bytesTy == nil {
		failAt(fd, "putArgs mode: %s has no []byte parameter", fd.Name.Name)
	}
	list := append([]ast.Stmt{}, fd.Body.List[:n-1]...)
	list = append(list, &ast.ReturnStmt{Return: ret.Return, Results: []ast.Expr{b["M_K"].(ast.Expr), b["M_V"].(ast.Expr)}})
	t.fd = &ast.FuncDecl{Recv: fd.Recv, Name: fd.Name,
		Type: &ast.FuncType{Func: fd.Type.Func, Params: fd.Type.Params, Results: &ast.FieldList{List: []*ast.Field{{Type: bytesTy}, {Type: bytesTy}}}},
		Body: &ast.BlockStmt{Lbrace: fd.Body.Lbrace, List: list, Rbrace: fd.Body.Rbrace}}
	text := t.function()
	return "/- mode putArgs (dt.go): `" + fd.Name.Name + "` ends in `" + src(ret) + "`, its only use of the engine; the definition below is the\n" +
		"   translation of the function with that statement replaced by `return " + src(b["M_K"]) + ", " + src(b["M_V"]) + "`: the arguments of the engine call. -/\n" + text
}

var dtEffects = []effect{
	{
		// `if p == nil { return nil }` at the top of a function that returns one error: nil-ness of a []byte
		// cannot be represented (nil and empty are the same ByteArray); the branch is dropped, the generated
		// definition describes the calls with p != nil
		name: "nilNoop",
		pattern: `if M_P == nil {
	return nil
}`,
		apply: func(t *tr, b map[string]ast.Node, o *out, ind string) {
			id, ok := b["M_P"].(*ast.Ident)
			var pi int
			if ok {
				pi, ok = t.paramByObj[t.p.info.Uses[id]]
			}
			if !ok || t.params[pi].k.k != kBytes || t.params[pi].mut {
				failAt(b["M_P"], "effect nilNoop: %s is not a read-only []byte parameter", src(b["M_P"]))
			}
			if t.inLoop || t.sp.dt != "putArgs" {
				failAt(id, "effect nilNoop is only supported at the top level of a function translated in putArgs mode")
			}
			o.add(ind, "-- (dropped: `if "+id.Name+" == nil { return nil }`; this definition describes the calls with "+id.Name+" != nil)")
		},
	},
	{
		// the value the engine returns for a key; the error branch is dropped
		name: "dbGet",
		pattern: `M_V, M_ERR := M_RECV.db.Get(M_K)
if M_ERR != nil {
	return nil, M_ERR
}`,
		tmps: []string{"M_ERR"},
		apply: func(t *tr, b map[string]ast.Node, o *out, ind string) {
			id, ok := b["M_V"].(*ast.Ident)
			if !ok {
				failAt(b["M_V"], "effect dbGet: target is not an identifier")
			}
			if t.inLoop {
				failAt(id, "effect dbGet inside a loop is outside the subset")
			}
			if len(t.results) != 2 || t.results[0].k != kBytes || t.results[1].k != kErr {
				failAt(id, "effect dbGet: the function does not return ([]byte, error)")
			}
			k := t.bytesExpr(b["M_K"].(ast.Expr))
			t.noPending(b["M_K"])
			name := t.declare(id, kind{k: kBytes})
			a := absParam{"db_Get", "ByteArray → ByteArray",
				"db_Get k = the value " + src(b["M_RECV"]) + ".db.Get(k) returns (the error branch is dropped: only calls in which the engine finds the key are described)"}
			t.useAbstract(a)
			o.add(ind, "let st : "+t.leanName+".St := { st with "+name+" := "+a.name+" "+par(k)+" }")
		},
	},
	{
		// the decimal text of the receiver's float64 field `score`; floats are outside the subset, the text
		// is an abstract parameter of the generated definition (a fresh byte string, not a view of anything)
		name:    "scoreText",
		pattern: `M_X := utils.Float64ToBytes(M_RECV.score)`,
		apply: func(t *tr, b map[string]ast.Node, o *out, ind string) {
			id, ok := b["M_X"].(*ast.Ident)
			if !ok {
				failAt(b["M_X"], "effect scoreText: target is not an identifier")
			}
			if t.inLoop {
				failAt(id, "effect scoreText inside a loop is outside the subset")
			}
			var call *ast.CallExpr
			ast.Inspect(t.fd.Body, func(n ast.Node) bool {
				if as, ok := n.(*ast.AssignStmt); ok && len(as.Lhs) == 1 && as.Lhs[0] == ast.Expr(id) {
					call = as.Rhs[0].(*ast.CallExpr)
				}
				return call == nil
			})
			if call == nil {
				failAt(id, "effect scoreText: internal: call not found")
			}
			t.dtCheckPkg(call, "utils", "utils")
			name := t.declare(id, kind{k: kBytes})
			a := absParam{"Float64ToBytes_" + t.recvName + "_score", "ByteArray",
				"Float64ToBytes_" + t.recvName + "_score = utils.Float64ToBytes(" + t.recvName + ".score), the decimal text of the receiver's float64 field (unspecified bytes)"}
			t.useAbstract(a)
			o.add(ind, "let st : "+t.leanName+".St := { st with "+name+" := "+a.name+" }")
		},
	},
}
