#!/usr/bin/env python3
"""Robustness demo, round 3b (datatype codecs).  Each experiment: reset the scratch worktree /tmp/t3b-w of /repo,
apply ONE textual edit, check that the edited package still compiles, run `trans` on the worktree and
`lake build XixiKV.Proofs.TransEq4`; record exit status of trans and whether the proofs still build.
At the end the generated file is regenerated from the unchanged /repo.
usage: demo.py <clone>   (e.g. /root/scratch/t3b); the worktree must exist:
   git -C /repo worktree add --detach /tmp/t3b-w HEAD      (removed afterwards with: git -C /repo worktree remove --force /tmp/t3b-w)
"""
import os, subprocess, sys, re

CLONE = sys.argv[1]
W = "/tmp/t3b-w"
ENV = dict(os.environ, GOFLAGS="-mod=mod", GOPROXY="off", GOSUMDB="off", GOTOOLCHAIN="local")
TRANS = os.path.join(CLONE, "harness/bin/trans")
OUT = os.path.join(CLONE, "lean/XixiKV/Generated/Trans.lean")
META, TYPES = "datatype/meta.go", "datatype/types.go"

# (id, expectation, file, description, old, new)   expectation: P = behaviour preserving, C = behaviour changing, U = leaves the subset
EXPS = [
 ("P1", "P", META, "metadata.encode: `index += PutVarint(..expire)` -> `index = index + PutVarint(..)`",
  "index += binary.PutVarint(buf[index:], md.expire)", "index = index + binary.PutVarint(buf[index:], md.expire)"),
 ("P2", "P", META, "hashInternalKey.encode: open-ended `copy(buf[index:], hk.field)` -> `copy(buf[index:index+len(hk.field)], hk.field)`",
  "copy(buf[index:], hk.field)", "copy(buf[index:index+len(hk.field)], hk.field)"),
 ("P3", "P", META, "setInternalKey.encode: buffer size `len(key)+len(member)+8+4` -> `4+8+len(member)+len(key)` (also reverses the first-use order of the receiver fields)",
  "buf := make([]byte, len(sk.key)+len(sk.member)+8+4)", "buf := make([]byte, 4+8+len(sk.member)+len(sk.key))"),
 ("P4", "P", META, "decodeMetadata: local `n` renamed to `cnt`",
  None, None),  # regex, see below
 ("P5", "P", META, "metadata.encode: both `md.dataType == List` -> `List == md.dataType`",
  "if md.dataType == List {", "if List == md.dataType {"),
 ("P6", "P", META, "listInternalKey.encode: `PutUint64(buf[index:], lk.index)` -> `PutUint64(buf[index:index+8], lk.index)`",
  "binary.LittleEndian.PutUint64(buf[index:], lk.index)", "binary.LittleEndian.PutUint64(buf[index:index+8], lk.index)"),
 ("P7", "P", TYPES, "Get: `dataType != String` -> `String != dataType`; `expire > 0` -> `0 < expire`",
  "if dataType != String {\n\t\treturn nil, ErrWrongTypeOperation\n\t}\n\n\tvar index = 1\n\texpire, n := binary.Varint(encValue[index:])\n\tindex += n\n\t// 判断 key 是否过期\n\tif expire > 0 &&",
  "if String != dataType {\n\t\treturn nil, ErrWrongTypeOperation\n\t}\n\n\tvar index = 1\n\texpire, n := binary.Varint(encValue[index:])\n\tindex += n\n\t// 判断 key 是否过期\n\tif 0 < expire &&"),
 ("P8", "P", TYPES, "Set: `var index = 1` moved in front of `buf[0] = String`, `copy(encValue[index:], value)` -> `copy(encValue[index:index+len(value)], value)`",
  None, None),
 ("P9", "P", META, "zsetInternalKey.encodeWithScore: `index += len(scoreBuf)` -> `index = len(scoreBuf) + index`",
  "index += len(scoreBuf)", "index = len(scoreBuf) + index"),
 ("P10", "P", META, "decodeMetadata: `var head uint64 = 0` / `var tail uint64 = 0` -> `var head, tail uint64`",
  "var head uint64 = 0\n\tvar tail uint64 = 0", "var head, tail uint64"),
 ("P11", "P", TYPES, "Get: operands of `&&` swapped (`expire <= time.Now().UnixNano() && expire > 0`)",
  "if expire > 0 && expire <= time.Now().UnixNano() {", "if expire <= time.Now().UnixNano() && expire > 0 {"),
 ("P12", "P", META, "decodeMetadata: `dataType == List` -> `List == dataType`",
  "if dataType == List {", "if List == dataType {"),
 ("C1", "C", META, "metadata.encode: expire and version written in the other order",
  "index += binary.PutVarint(buf[index:], md.expire)\n\tindex += binary.PutVarint(buf[index:], md.version)",
  "index += binary.PutVarint(buf[index:], md.version)\n\tindex += binary.PutVarint(buf[index:], md.expire)"),
 ("C2", "C", META, "setInternalKey.encode: length field `uint32(len(sk.member))` -> `uint32(len(sk.key))`",
  "binary.LittleEndian.PutUint32(buf[index:], uint32(len(sk.member)))", "binary.LittleEndian.PutUint32(buf[index:], uint32(len(sk.key)))"),
 ("C3", "C", META, "hashInternalKey.encode: `index += 8` dropped (the field overwrites the version)",
  None, None),
 ("C4", "C", META, "metadata.encode: `PutVarint(.., md.expire)` -> `PutUvarint(.., uint64(md.expire))` (no zig-zag)",
  "index += binary.PutVarint(buf[index:], md.expire)", "index += binary.PutUvarint(buf[index:], uint64(md.expire))"),
 ("C5", "C", META, "constant maxMetadataSize too small: `1 + MaxVarintLen64*2 + MaxVarintLen32` -> `1 + MaxVarintLen64 + MaxVarintLen32` (Go panics for long expire+version)",
  "maxMetadataSize = 1 + binary.MaxVarintLen64*2 + binary.MaxVarintLen32", "maxMetadataSize = 1 + binary.MaxVarintLen64 + binary.MaxVarintLen32"),
 ("C6", "C", META, "decodeMetadata: `index += n` after the version dropped",
  "version, n := binary.Varint(buf[index:])\n\tindex += n", "version, n := binary.Varint(buf[index:])"),
 ("C7", "C", META, "decodeMetadata: `size: uint32(size)` -> `size: uint32(size) + 1`",
  "size:     uint32(size),", "size:     uint32(size) + 1,"),
 ("C8", "C", META, "zsetInternalKey.encodeWithScore: member copied before the score",
  None, None),
 ("C9", "C", META, "listInternalKey.encode: version window `buf[index:index+8]` -> `buf[index:index+4]` (Go panics in PutUint64)",
  None, None),
 ("C10", "C", TYPES, "Set: `buf[0] = String` -> `buf[0] = Hash`",
  "buf[0] = String", "buf[0] = Hash"),
 ("C11", "C", TYPES, "Get: `expire > 0` -> `expire >= 0` (a string without expiry reads as expired)",
  "if expire > 0 && expire <= time.Now().UnixNano() {", "if expire >= 0 && expire <= time.Now().UnixNano() {"),
 ("C12", "C", TYPES, "Get: `expire <= now` -> `expire < now` (boundary)",
  "if expire > 0 && expire <= time.Now().UnixNano() {", "if expire > 0 && expire < time.Now().UnixNano() {"),
 ("C13", "C", META, "decodeMetadata: `dataType == List` -> `dataType == ZSet`",
  "if dataType == List {", "if dataType == ZSet {"),
 ("C14", "C", META, "zsetInternalKey.encodeWithMember: buffer 4 bytes too short (`+8` -> `+4`; Go: the member is cut)",
  "func (zk *zsetInternalKey) encodeWithMember() []byte {\n\tbuf := make([]byte, len(zk.key)+len(zk.member)+8)",
  "func (zk *zsetInternalKey) encodeWithMember() []byte {\n\tbuf := make([]byte, len(zk.key)+len(zk.member)+4)"),
 ("C15", "C", META, "metadata.encode: the list fields are written for `Set` instead of `List` in the second test only",
  None, None),
 ("C16", "C", TYPES, "Set: value copied one byte late (`copy(encValue[index+1:], value)`; allocation one byte longer)",
  "encValue := make([]byte, index+len(value))\n\tcopy(encValue[:index], buf[:index])\n\tcopy(encValue[index:], value)",
  "encValue := make([]byte, index+len(value)+1)\n\tcopy(encValue[:index], buf[:index])\n\tcopy(encValue[index+1:], value)"),
 ("U1", "U", META, "listInternalKey.encode: `binary.LittleEndian.PutUint64` -> `binary.BigEndian.PutUint64` (not in the table)",
  "binary.LittleEndian.PutUint64(buf[index:], lk.index)", "binary.BigEndian.PutUint64(buf[index:], lk.index)"),
 ("U2", "U", META, "encodeWithScore: `utils.Float64ToBytes(zk.score)` -> `utils.Float64ToBytes(zk.score + 1)` (table entry scoreText no longer matches)",
  "scoreBuf := utils.Float64ToBytes(zk.score)", "scoreBuf := utils.Float64ToBytes(zk.score + 1)"),
 ("U3", "U", META, "decodeMetadata: the two list varints read in a `for` loop with a post statement",
  "head, n = binary.Uvarint(buf[index:])\n\t\tindex += n\n\t\ttail, _ = binary.Uvarint(buf[index:])",
  "for i := 0; i < 2; i++ {\n\t\t\thead = tail\n\t\t\ttail, n = binary.Uvarint(buf[index:])\n\t\t\tindex += n\n\t\t}"),
 ("U4", "U", TYPES, "Get: clock read twice (`expire <= time.Now().UnixNano() && time.Now().UnixNano() > 0`)",
  "if expire > 0 && expire <= time.Now().UnixNano() {", "if expire > 0 && expire <= time.Now().UnixNano() && time.Now().UnixNano() > 0 {"),
 ("U5", "U", TYPES, "Set: a second use of the engine before the final Put (`_ = dts.db.Delete(key)`)",
  "\t// 底层调用引擎接口写入数据\n\treturn dts.db.Put(key, encValue)", "\t_ = dts.db.Delete(key)\n\treturn dts.db.Put(key, encValue)"),
]

def special(eid, s):
    if eid == "P4":
        i = s.index("func decodeMetadata("); j = s.index("// Hash类型数据部分key")
        body = s[i:j]
        body = re.sub(r"\bn\b", "cnt", body)
        return s[:i] + body + s[j:]
    if eid == "P8":
        a = "buf[0] = String\n\t// 根据生效时长计算过期时间\n\tvar expire int64 = 0\n\tvar index = 1\n"
        assert s.count(a) == 1
        s = s.replace(a, "var index = 1\n\tbuf[0] = String\n\t// 根据生效时长计算过期时间\n\tvar expire int64 = 0\n")
        a = "copy(encValue[index:], value)"
        assert s.count(a) == 1
        return s.replace(a, "copy(encValue[index:index+len(value)], value)")
    if eid == "C3":
        i = s.index("func (hk *hashInternalKey) encode()"); j = s.index("// Set类型数据部分key")
        body = s[i:j]
        assert body.count("\tindex += 8\n") == 1
        return s[:i] + body.replace("\tindex += 8\n", "") + s[j:]
    if eid == "C8":
        a = ("\t// score\n\tcopy(buf[index:index+len(scoreBuf)], scoreBuf)\n\tindex += len(scoreBuf)\n\n"
             "\t// member\n\tcopy(buf[index:index+len(zk.member)], zk.member)\n\tindex += len(zk.member)\n")
        assert s.count(a) == 1
        return s.replace(a, "\t// member\n\tcopy(buf[index:index+len(zk.member)], zk.member)\n\tindex += len(zk.member)\n\n"
                            "\t// score\n\tcopy(buf[index:index+len(scoreBuf)], scoreBuf)\n\tindex += len(scoreBuf)\n")
    if eid == "C9":
        i = s.index("func (lk *listInternalKey) encode()"); j = s.index("type zsetInternalKey struct")
        body = s[i:j]
        a = "binary.LittleEndian.PutUint64(buf[index:index+8], uint64(lk.version))"
        assert body.count(a) == 1
        return s[:i] + body.replace(a, "binary.LittleEndian.PutUint64(buf[index:index+4], uint64(lk.version))") + s[j:]
    if eid == "C15":
        a = "\tif md.dataType == List {\n\t\tindex += binary.PutUvarint(buf[index:], md.head)"
        assert s.count(a) == 1
        return s.replace(a, "\tif md.dataType == Set {\n\t\tindex += binary.PutUvarint(buf[index:], md.head)")
    raise KeyError(eid)

def run(cmd, cwd=None, timeout=1200):
    r = subprocess.run(cmd, cwd=cwd, env=ENV, capture_output=True, text=True, timeout=timeout)
    return r.returncode, (r.stdout + r.stderr)

def main():
    only = sys.argv[2:]
    results = []
    for eid, exp, f, desc, old, new in EXPS:
        if only and eid not in only:
            continue
        run(["git", "-C", W, "checkout", "--", "datatype", "utils"])
        path = os.path.join(W, f)
        s = open(path).read()
        if old is None:
            s2 = special(eid, s)
        else:
            assert s.count(old) >= 1, (eid, "pattern not found")
            s2 = s.replace(old, new)
        assert s2 != s, eid
        open(path, "w").write(s2)
        rc, o = run(["go", "vet", "./datatype"], cwd=W)
        compiles = rc == 0
        rc_t, o_t = run([TRANS, W, OUT])
        rc_b, o_b = run(["lake", "build", "XixiKV.Proofs.TransEq4"], cwd=os.path.join(CLONE, "lean"))
        where = ""
        if rc_b != 0:
            m = re.search(r"error: (XixiKV/[^\n]*)", o_b)
            if m:
                where = m.group(1)[:160]
            # which theorem
            ln = re.search(r"TransEq4.lean:(\d+):", o_b)
            if ln:
                lines = open(os.path.join(CLONE, "lean/XixiKV/Proofs/TransEq4.lean")).read().split("\n")
                k = int(ln.group(1)) - 1
                while k > 0 and not re.match(r"(theorem|example|def|private def|macro)", lines[k]):
                    k -= 1
                where = "first error in `" + " ".join(lines[k].split()[:2]) + "` — " + where
        msg = ""
        if rc_t != 0:
            msg = o_t.strip().split("\n")[0][:220]
        verdict = {True: "builds", False: "BUILD FAILS"}[rc_b == 0]
        line = f"{eid} [{exp}] {desc}\n    go vet: {'ok' if compiles else 'FAILS'}; trans exit {rc_t}{(' — ' + msg) if msg else ''}; TransEq4: {verdict}{(' — ' + where) if where else ''}"
        print(line, flush=True)
        results.append((eid, exp, compiles, rc_t, rc_b))
    run(["git", "-C", W, "checkout", "--", "datatype", "utils"])
    rc, o = run([TRANS, "/repo", OUT])
    print("regenerated from /repo: trans exit", rc, o.strip())
    rc, o = run(["lake", "build", "XixiKV.Proofs.TransEq4"], cwd=os.path.join(CLONE, "lean"))
    print("TransEq4 on /repo:", "builds" if rc == 0 else "FAILS")
    bad = [r for r in results if not r[2] or (r[1] == "P" and (r[3] != 0 or r[4] != 0)) or (r[1] == "C" and (r[3] != 0 or r[4] == 0)) or (r[1] == "U" and r[3] != 2)]
    print("unexpected outcomes:", [r[0] for r in bad])

main()
