// extract re-reads /repo with go/parser and regenerates the Lean facts the concurrency and
// lock-release theorems are checked against:
//
//	Generated/Consts.lean     constants the model depends on
//	Generated/Skeletons.lean  the lockset table: for every whitelisted action of every public
//	                          method, in program order, which mode of db.mu (or of the shard lock)
//	                          is held and in which lock section
//
// usage: extract <repo> <outdir>
package main

import (
	"fmt"
	"go/ast"
	"go/constant"
	"go/importer"
	"go/parser"
	"go/printer"
	"go/token"
	"go/types"
	"os"
	"path/filepath"
	"sort"
	"strings"
)

var fset = token.NewFileSet()
var funcs = map[string]*ast.FuncDecl{} // "DB.Put", "Open", "ShardedIndex.Put" -> decl

func exprStr(e ast.Node) string {
	var sb strings.Builder
	printer.Fprint(&sb, fset, e)
	return sb.String()
}

type row struct {
	method  string
	ord     int
	action  string
	mode    string // none | R | W
	section int
}

type state struct {
	mode    string
	section int
}

type walker struct {
	method   string
	lockExpr []string // textual prefixes naming the tracked lock, e.g. "db.mu"
	rows     []row
	st       state
	nsect    int
	defers   [][]ast.Node // per inlined function: deferred calls / closures
	depth    int
	index    bool // walking index package (shard lock)
	inDefer  bool
	recv     string          // receiver prefix of the shared fields ("db." when empty)
	goLits   []*ast.FuncLit  // bodies of `go func() {…}()` statements met on the way (walked afterwards as methods of their own)
	fields   map[string]bool // shared fields (the DB's when nil)
}

func (w *walker) emit(action string) {
	w.rows = append(w.rows, row{w.method, len(w.rows), action, w.st.mode, w.st.section})
}

var shared = map[string]bool{"reclaimSize": true, "totalSize": true, "bytesWrite": true, "isMerging": true, "activeFile": true, "olderFiles": true}

func normRecv(s string) string {
	s = strings.Replace(s, "b.db.", "db.", -1)
	s = strings.Replace(s, "it.db.", "db.", -1)
	return s
}

func (w *walker) lockCall(s string) (string, bool) {
	for _, l := range w.lockExpr {
		if strings.HasPrefix(s, l+".") {
			return strings.TrimPrefix(s, l+"."), true
		}
	}
	return "", false
}

func (w *walker) sharedField(e ast.Expr) string {
	if se, ok := e.(*ast.SelectorExpr); ok {
		x := normRecv(exprStr(se.X) + ".")
		recv, set := "db.", shared
		if w.recv != "" {
			recv, set = w.recv, w.fields
		}
		if x == recv && set[se.Sel.Name] {
			return se.Sel.Name
		}
	}
	if ie, ok := e.(*ast.IndexExpr); ok {
		return w.sharedField(ie.X)
	}
	return ""
}

func (w *walker) call(c *ast.CallExpr) {
	for _, a := range c.Args {
		w.expr(a)
	}
	s := normRecv(exprStr(c.Fun))
	if op, ok := w.lockCall(s); ok {
		switch op {
		case "Lock":
			w.nsect++
			w.st = state{"W", w.nsect}
			w.emit("acqW")
		case "RLock":
			w.nsect++
			w.st = state{"R", w.nsect}
			w.emit("acqR")
		case "Unlock":
			if w.st.mode == "none" && w.inDefer {
				return // conditional deferred release on a path that already released
			}
			w.emit("relW")
			w.st = state{"none", 0}
		case "RUnlock":
			if w.st.mode == "none" && w.inDefer {
				return
			}
			w.emit("relR")
			w.st = state{"none", 0}
		}
		return
	}
	if w.index {
		// shard-level actions: shard.put / s.index[i].size / it := s.index[i].iterator(...)
		for _, m := range []string{"put", "get", "delete", "size", "iterator", "close"} {
			if strings.HasSuffix(s, "."+m) && (strings.HasPrefix(s, "shard.") || strings.HasPrefix(s, "s.index[")) {
				w.emit("shard." + m)
				return
			}
		}
		if s == "s.locateShard" {
			return
		}
		w.expr(c.Fun)
		return
	}
	switch s {
	case "db.index.Put":
		w.emit("idxPut")
		return
	case "db.index.Get":
		w.emit("idxGet")
		return
	case "db.index.Delete":
		w.emit("idxDel")
		return
	case "db.index.Size":
		w.emit("idxSize")
		return
	case "db.index.Iterator":
		w.emit("idxIter")
		return
	case "db.activeFile.WriteLogRecord":
		w.emit("read:activeFile")
		w.emit("append")
		return
	case "db.activeFile.WriteStagedLogRecord":
		w.emit("read:activeFile")
		return
	case "db.activeFile.FlushStaged":
		w.emit("read:activeFile")
		w.emit("appendAll")
		return
	case "db.activeFile.Sync":
		w.emit("read:activeFile")
		w.emit("fsync")
		return
	case "db.activeFile.Close":
		w.emit("read:activeFile")
		w.emit("closeFile")
		return
	case "db.activeFile.Size":
		w.emit("read:activeFile")
		return
	case "dataFile.ReadRecordValue", "db.activeFile.ReadRecordValue":
		w.emit("readFile")
		return
	case "db.fileLock.Unlock", "fileLock.Unlock":
		w.emit("flockRelease")
		return
	case "fileLock.TryLock":
		w.emit("flockTry")
		return
	case "os.Remove":
		w.emit("fsRemove")
		return
	case "os.Rename":
		w.emit("fsRename")
		return
	case "os.RemoveAll":
		w.emit("fsRemoveAll")
		return
	}
	if strings.HasPrefix(s, "atomic.") && len(c.Args) > 0 {
		if ue, ok := c.Args[0].(*ast.UnaryExpr); ok {
			if f := w.sharedField(ue.X); f != "" {
				// the plain read emitted for &db.f while walking the args is replaced
				if n := len(w.rows); n > 0 && w.rows[n-1].action == "read:"+f {
					w.rows = w.rows[:n-1]
				}
				w.emit("atomic:" + f)
				return
			}
		}
	}
	if s == "delete" && len(c.Args) > 0 {
		if f := w.sharedField(c.Args[0]); f != "" {
			w.emit("write:" + f)
		}
		return
	}
	// inline same-package methods called on db itself
	if strings.HasPrefix(s, "db.") && strings.Count(s, ".") == 1 {
		name := "DB." + strings.TrimPrefix(s, "db.")
		if fd, ok := funcs[name]; ok && w.depth < 6 {
			w.inline(fd)
			return
		}
	}
	if w.recv == "m." && strings.HasPrefix(s, "m.") && strings.Count(s, ".") == 1 {
		name := "MMap." + strings.TrimPrefix(s, "m.")
		if fd, ok := funcs[name]; ok && w.depth < 6 {
			w.inline(fd)
			return
		}
	}
	if strings.HasPrefix(s, "b.") && strings.Count(s, ".") == 1 {
		name := "Batch." + strings.TrimPrefix(s, "b.")
		if fd, ok := funcs[name]; ok && w.depth < 6 {
			w.inline(fd)
			return
		}
	}
	if s == "checkOptions" {
		return
	}
	w.expr(c.Fun)
}

func (w *walker) expr(x ast.Node) {
	if x == nil {
		return
	}
	ast.Inspect(x, func(n ast.Node) bool {
		switch v := n.(type) {
		case *ast.FuncLit:
			return false
		case *ast.CallExpr:
			w.call(v)
			return false
		case *ast.SelectorExpr:
			if f := w.sharedField(v); f != "" {
				w.emit("read:" + f)
				return false
			}
		}
		return true
	})
}

func endsInReturn(b *ast.BlockStmt) bool {
	if b == nil || len(b.List) == 0 {
		return false
	}
	switch last := b.List[len(b.List)-1].(type) {
	case *ast.ReturnStmt:
		return true
	case *ast.BranchStmt:
		return last.Tok == token.BREAK || last.Tok == token.CONTINUE
	case *ast.ExprStmt:
		if c, ok := last.X.(*ast.CallExpr); ok && exprStr(c.Fun) == "panic" {
			return true
		}
	}
	return false
}

func (w *walker) runDefers() {
	w.inDefer = true
	defer func() { w.inDefer = false }()
	d := w.defers[len(w.defers)-1]
	for i := len(d) - 1; i >= 0; i-- {
		switch v := d[i].(type) {
		case *ast.CallExpr:
			if fl, ok := v.Fun.(*ast.FuncLit); ok {
				saved := w.defers
				w.defers = append(w.defers, nil)
				w.depth++ // returns inside the closure are not returns of the method
				w.stmt(fl.Body)
				w.depth--
				w.defers = saved
			} else {
				w.call(v)
			}
		}
	}
}

func isErrReturn(r *ast.ReturnStmt) bool {
	if len(r.Results) == 0 {
		return false
	}
	last := exprStr(r.Results[len(r.Results)-1])
	return last != "nil" && last != "true" && last != "false" && (strings.Contains(last, "err") || strings.Contains(last, "Err") || strings.Contains(last, "errors."))
}

func (w *walker) stmt(s ast.Stmt) {
	switch v := s.(type) {
	case nil:
	case *ast.BlockStmt:
		for _, st := range v.List {
			w.stmt(st)
		}
	case *ast.IfStmt:
		w.stmt(v.Init)
		w.expr(v.Cond)
		before := w.st
		w.stmt(v.Body)
		afterBody := w.st
		bodyReturns := endsInReturn(v.Body)
		w.st = before
		elseReturns := false
		if v.Else != nil {
			w.stmt(v.Else)
			if b, ok := v.Else.(*ast.BlockStmt); ok {
				elseReturns = endsInReturn(b)
			}
		}
		afterElse := w.st
		switch {
		case bodyReturns && !elseReturns:
			w.st = afterElse
		case elseReturns && !bodyReturns:
			w.st = afterBody
		case bodyReturns && elseReturns:
			w.st = before
		default:
			if afterBody != afterElse {
				// branches leave the lock in different states (getValueByPosition releases early
				// for older files): continue with the weaker one, which is conservative for the
				// lockset discipline
				if afterBody.mode == "none" {
					w.st = afterBody
				} else {
					w.st = afterElse
				}
			}
		}
	case *ast.ForStmt:
		w.stmt(v.Init)
		w.expr(v.Cond)
		w.stmt(v.Body)
		w.stmt(v.Post)
	case *ast.RangeStmt:
		w.expr(v.X)
		w.stmt(v.Body)
	case *ast.DeferStmt:
		w.defers[len(w.defers)-1] = append(w.defers[len(w.defers)-1], v.Call)
	case *ast.ReturnStmt:
		for _, r := range v.Results {
			w.expr(r)
		}
		saved := w.st
		w.runDefers()
		if w.depth == 0 {
			if isErrReturn(v) {
				w.emit("retErr")
			} else {
				w.emit("ret")
			}
		}
		// the code after a return in an enclosing branch continues from the state before it
		if w.depth == 0 {
			w.st = saved
		}
	case *ast.AssignStmt:
		for _, r := range v.Rhs {
			w.expr(r)
		}
		for _, l := range v.Lhs {
			if f := w.sharedField(l); f != "" {
				if v.Tok != token.ASSIGN && v.Tok != token.DEFINE {
					w.emit("read:" + f)
				}
				w.emit("write:" + f)
				continue
			}
			w.expr(l)
		}
	case *ast.IncDecStmt:
		if f := w.sharedField(v.X); f != "" {
			w.emit("read:" + f)
			w.emit("write:" + f)
		}
	case *ast.ExprStmt:
		w.expr(v.X)
	case *ast.GoStmt:
		// a background goroutine is a thread of its own: its body becomes a pseudo-method "<method>.go<k>" that starts unlocked
		if fl, ok := v.Call.Fun.(*ast.FuncLit); ok {
			w.goLits = append(w.goLits, fl)
		} else if s := normRecv(exprStr(v.Call.Fun)); strings.HasPrefix(s, "db.") && strings.Count(s, ".") == 1 {
			// `go db.method()`: the method's body is that thread
			if fd, ok := funcs["DB."+strings.TrimPrefix(s, "db.")]; ok {
				w.goLits = append(w.goLits, &ast.FuncLit{Type: fd.Type, Body: fd.Body})
			}
		}
	case *ast.SwitchStmt:
		w.stmt(v.Init)
		w.expr(v.Tag)
		before := w.st
		for _, c := range v.Body.List {
			w.st = before
			cc := c.(*ast.CaseClause)
			for _, e := range cc.List {
				w.expr(e)
			}
			for _, st := range cc.Body {
				w.stmt(st)
			}
		}
		w.st = before
	case *ast.SelectStmt:
		before := w.st
		for _, c := range v.Body.List {
			w.st = before
			cc := c.(*ast.CommClause)
			w.stmt(cc.Comm)
			for _, st := range cc.Body {
				w.stmt(st)
			}
		}
		w.st = before
	case *ast.DeclStmt:
		w.expr(v)
	default:
		w.expr(v)
	}
}

func (w *walker) inline(fd *ast.FuncDecl) {
	w.depth++
	w.defers = append(w.defers, nil)
	w.stmt(fd.Body)
	if !endsInReturn(fd.Body) {
		w.runDefers()
	} else {
		// returns inside an inlined callee: deferred calls run there; handled approximately by
		// running them once at the end as well when the callee has defers and a single exit
	}
	w.defers = w.defers[:len(w.defers)-1]
	w.depth--
}

func (w *walker) top(fd *ast.FuncDecl) {
	w.defers = append(w.defers, nil)
	w.stmt(fd.Body)
	if !endsInReturn(fd.Body) {
		w.runDefers()
		w.emit("ret")
	}
}

func parseDir(dir string) {
	pkgs, err := parser.ParseDir(fset, dir, func(fi os.FileInfo) bool {
		return !strings.HasSuffix(fi.Name(), "_test.go") && !strings.HasSuffix(fi.Name(), "_verif.go")
	}, 0)
	if err != nil {
		fmt.Fprintln(os.Stderr, err)
		os.Exit(1)
	}
	for _, p := range pkgs {
		for _, f := range p.Files {
			for _, d := range f.Decls {
				if fd, ok := d.(*ast.FuncDecl); ok && fd.Body != nil {
					if fd.Recv != nil {
						t := strings.TrimPrefix(exprStr(fd.Recv.List[0].Type), "*")
						funcs[t+"."+fd.Name.Name] = fd
					} else {
						funcs[fd.Name.Name] = fd
					}
				}
			}
		}
	}
}

// constants via go/types-free evaluation of const declarations
func constValue(dir, name string) string {
	pkgs, _ := parser.ParseDir(fset, dir, func(fi os.FileInfo) bool { return !strings.HasSuffix(fi.Name(), "_test.go") }, 0)
	for _, p := range pkgs {
		var files []*ast.File
		for _, f := range p.Files {
			files = append(files, f)
		}
		conf := types.Config{Error: func(error) {}, Importer: importer.ForCompiler(fset, "source", nil), FakeImportC: true}
		info := &types.Info{Defs: map[*ast.Ident]types.Object{}}
		conf.Check(p.Name, fset, files, info)
		for id, obj := range info.Defs {
			if id.Name == name {
				if c, ok := obj.(*types.Const); ok && c.Val() != nil && c.Val().Kind() != constant.Unknown {
					return c.Val().ExactString()
				}
			}
		}
	}
	return ""
}

func leanStr(s string) string { return "\"" + strings.ReplaceAll(s, "\"", "\\\"") + "\"" }

func writeIfChanged(path, content string) {
	old, err := os.ReadFile(path)
	if err == nil && string(old) == content {
		return
	}
	os.MkdirAll(filepath.Dir(path), 0o755)
	os.WriteFile(path, []byte(content), 0o644)
}

func main() {
	repo, out := os.Args[1], os.Args[2]
	parseDir(repo)
	methods := []struct {
		name  string
		entry state
	}{
		{"DB.Put", state{"none", 0}}, {"DB.Get", state{"none", 0}}, {"DB.Delete", state{"none", 0}},
		{"DB.ListKeys", state{"none", 0}}, {"DB.Fold", state{"none", 0}}, {"DB.Stat", state{"none", 0}},
		{"DB.Sync", state{"none", 0}}, {"DB.Close", state{"none", 0}}, {"DB.Merge", state{"none", 0}},
		{"DB.Backup", state{"none", 0}}, {"DB.NewBatch", state{"none", 0}}, {"DB.NewIterator", state{"none", 0}},
		// a batch runs between NewBatch (returns holding db.mu in W mode) and Commit (releases it)
		{"Batch.Put", state{"W", 1}}, {"Batch.Get", state{"W", 1}}, {"Batch.Delete", state{"W", 1}}, {"Batch.Commit", state{"W", 1}},
		{"Iterator.Value", state{"none", 0}},
		{"Open", state{"none", 0}},
	}
	var all []row
	for _, m := range methods {
		fd, ok := funcs[m.name]
		if !ok {
			all = append(all, row{m.name, 0, "missing", "none", 0})
			continue
		}
		w := &walker{method: m.name, lockExpr: []string{"db.mu"}, st: m.entry, nsect: m.entry.section}
		w.top(fd)
		all = append(all, w.rows...)
		for k, fl := range w.goLits {
			g := &walker{method: fmt.Sprintf("%s.go%d", m.name, k+1), lockExpr: []string{"db.mu"}, st: state{"none", 0}}
			g.top(&ast.FuncDecl{Name: ast.NewIdent(g.method), Type: fl.Type, Body: fl.Body})
			all = append(all, g.rows...)
		}
	}
	// shard locks of the index package
	funcsSaved := funcs
	funcs = map[string]*ast.FuncDecl{}
	parseDir(filepath.Join(repo, "index"))
	var shardRows []row
	for _, name := range []string{"ShardedIndex.Put", "ShardedIndex.Get", "ShardedIndex.Delete", "ShardedIndex.Size", "ShardedIndex.Iterator", "ShardedIndex.Close"} {
		fd, ok := funcs[name]
		if !ok {
			shardRows = append(shardRows, row{name, 0, "missing", "none", 0})
			continue
		}
		w := &walker{method: name, lockExpr: []string{"lock", "s.indexLock[i]", "s.indexLock[idx]"}, st: state{"none", 0}, index: true}
		w.top(fd)
		shardRows = append(shardRows, w.rows...)
	}
	// the staging state of a Batch, guarded by the batch's own RWMutex b.mu (a Batch may be shared between goroutines)
	var batchRows []row
	funcs = funcsSaved
	for _, name := range []string{"Batch.Put", "Batch.Get", "Batch.Delete", "Batch.Commit"} {
		fd, ok := funcs[name]
		if !ok {
			batchRows = append(batchRows, row{"b.mu:" + name, 0, "missing", "none", 0})
			continue
		}
		// (rows are labelled "b.mu:Batch.Put" …: in the db.mu table the Batch methods start with db.mu held, here they start unlocked)
		w := &walker{method: "b.mu:" + name, lockExpr: []string{"b.mu"}, st: state{"none", 0}, recv: "b.",
			fields: map[string]bool{"staged": true, "stageIndex": true, "cachedDataSize": true, "committed": true}}
		w.top(fd)
		batchRows = append(batchRows, w.rows...)
	}
	// the mapping state of fio.MMap, guarded by its own RWMutex (reads re-create the mapping after ResetFileSize)
	funcs = map[string]*ast.FuncDecl{}
	parseDir(filepath.Join(repo, "fio"))
	var mmapRows []row
	for _, name := range []string{"MMap.Read", "MMap.Write", "MMap.Sync", "MMap.Close", "MMap.Size", "MMap.ResetFileSize", "MMap.Truncate"} {
		fd, ok := funcs[name]
		if !ok {
			mmapRows = append(mmapRows, row{name, 0, "missing", "none", 0})
			continue
		}
		w := &walker{method: name, lockExpr: []string{"m.mu"}, st: state{"none", 0}, recv: "m.",
			fields: map[string]bool{"activeMap": true, "endOff": true, "virtualSize": true}}
		w.top(fd)
		mmapRows = append(mmapRows, w.rows...)
	}
	funcs = funcsSaved

	var sb strings.Builder
	sb.WriteString("/- GENERATED by harness/cmd/extract from /repo on every run. Do not edit. -/\n")
	sb.WriteString("namespace XixiKV.Generated\n\n")
	sb.WriteString("inductive Mode where\n  | none | R | W\nderiving DecidableEq, Repr\n\n")
	sb.WriteString("structure Row where\n  method : String\n  ord : Nat\n  action : String\n  mode : Mode\n  sect : Nat\nderiving DecidableEq, Repr\n\n")
	emitTable := func(name string, rows []row) {
		sb.WriteString("def " + name + " : List Row := [\n")
		for i, r := range rows {
			sep := ","
			if i == len(rows)-1 {
				sep = ""
			}
			fmt.Fprintf(&sb, "  ⟨%s, %d, %s, .%s, %d⟩%s\n", leanStr(r.method), r.ord, leanStr(r.action), r.mode, r.section, sep)
		}
		sb.WriteString("]\n\n")
	}
	emitTable("locksetTable", all)
	emitTable("shardTable", shardRows)
	emitTable("mmapTable", mmapRows)
	emitTable("batchTable", batchRows)
	sb.WriteString("end XixiKV.Generated\n")
	writeIfChanged(filepath.Join(out, "Skeletons.lean"), sb.String())

	// constants
	consts := []struct{ dir, name, lean string }{
		{"datafile", "blockSize", "blockSize"}, {"datafile", "chunkHeaderSize", "chunkHeaderSize"},
		{"datafile", "MaxLogRecordHeaderSize", "maxLogRecordHeaderSize"}, {"datafile", "MaxLogRecordPosSize", "maxLogRecordPosSize"},
		{"datafile", "Full", "chunkFull"}, {"datafile", "First", "chunkFirst"}, {"datafile", "Middle", "chunkMiddle"}, {"datafile", "Last", "chunkLast"},
		{"datafile", "LogRecordNormal", "recNormal"}, {"datafile", "LogRecordDeleted", "recDeleted"}, {"datafile", "LogRecordBatchFinished", "recBatchFinished"},
		{".", "maxFinRecord", "maxFinRecord"}, {"index", "MaxCap", "maxCap"}, {"fio", "blockSize", "mmapBlockSize"},
	}
	var cb strings.Builder
	cb.WriteString("/- GENERATED by harness/cmd/extract from /repo on every run. Do not edit. -/\n")
	cb.WriteString("namespace XixiKV.Generated\n\n")
	names := []string{}
	for _, c := range consts {
		v := constValue(filepath.Join(repo, c.dir), c.name)
		if v == "" {
			v = "0 /- not found -/"
		}
		fmt.Fprintf(&cb, "def %s : Nat := %s\n", c.lean, v)
		names = append(names, c.lean)
	}
	sort.Strings(names)
	cb.WriteString("\nend XixiKV.Generated\n")
	writeIfChanged(filepath.Join(out, "Consts.lean"), cb.String())
	fmt.Printf("extract: %d lockset rows, %d shard rows, %d constants\n", len(all), len(shardRows), len(consts))
}
