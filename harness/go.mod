module xkvharness

go 1.23.4

require (
	github.com/XiXi-2024/xixi-kv v0.0.0
	github.com/cespare/xxhash v1.1.0
)

require (
	github.com/bwmarrin/snowflake v0.3.0 // indirect
	github.com/edsrzf/mmap-go v1.2.0 // indirect
	github.com/gofrs/flock v0.12.1 // indirect
	github.com/google/btree v1.1.3 // indirect
	github.com/huandu/skiplist v1.2.1 // indirect
	github.com/valyala/bytebufferpool v1.0.0 // indirect
	golang.org/x/sys v0.22.0 // indirect
)

replace github.com/XiXi-2024/xixi-kv => /repo
