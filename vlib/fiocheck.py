"""fio-level correspondence and back-end agreement (lean/XixiKV/Model/Fio.lean, Properties C11/C20).

One generated call sequence is executed on two OS files, `a` through fio.FileIO and `b` through
fio.MMap, by the real code (harness ops fio.*) and by the model (Drv/Fio.lean).  Checked:
  * code = model line by line (correspondence of Model/Fio.lean);
  * the hypothesis-free consequences of `C11_backends_identical`: same delivered bytes / sizes for
    the two back-ends call by call, physical size = logical size after Close / ResetFileSize, the
    mmap file physically a multiple of 512 MiB while mapped, and no `fault` (`C11_mmap_never_faults`).
"""
from .core import run_impl

B = 536870912


def gen(rng, backup_bias=False, big=False):
    """ops on files a (FileIO) and b (MMap): identical calls; truncate only with n <= size."""
    ops = []
    size = 0
    open_ = False
    first = True
    n = rng.randint(6, 30)

    def both(fmt, *args):
        for nm in ("a", "b"):
            ops.append(fmt % ((nm,) + args))

    def do_open():
        nonlocal open_, first
        # the two names keep their back-ends, except that a closed file may be reopened swapped
        swap = (not first) and rng.random() < 0.3
        ops.append("fio.open a %d" % (1 if swap else 0))
        ops.append("fio.open b %d" % (0 if swap else 1))
        first = False
        open_ = True
        return swap

    swapped = do_open()
    if big:
        # a sparse file longer than one mapping block: the mapping must cover two blocks
        both("fio.write %s p7:100")
        size = 100
    for _ in range(n):
        r = rng.random()
        if not open_:
            swapped = do_open()
            continue
        if r < 0.35:
            ln = rng.choice([0, 1, 2, 7, 100, 4095, 4096, 4097, 32768, 70000]) if rng.random() < 0.5 else rng.randint(0, 3000)
            both("fio.write %s p%d:%d", rng.randint(0, 999), ln)
            size += ln
        elif r < 0.6:
            off = rng.choice([0, max(0, size - 1), size, size + 1, size + 5000]) if rng.random() < 0.4 else rng.randint(0, max(1, size + 10))
            ln = rng.choice([1, 2, 7, 100, 5000])
            both("fio.read %s %d %d", off, ln)
        elif r < 0.68:
            both("fio.size %s")
        elif r < 0.74:
            both("fio.phys %s")
        elif r < 0.80:
            both("fio.sync %s")
        elif r < 0.88 or (backup_bias and r < 0.93):
            # Backup's ResetFileSize on the mmap handle(s) (a `?` on FileIO), then keep going
            both("fio.reset %s")
            both("fio.phys %s")
        elif r < 0.95:
            k = rng.choice([0, size, max(0, size - 1), size // 2]) if size else 0
            both("fio.trunc %s %d", k)
            size = k
        else:
            both("fio.close %s")
            both("fio.phys %s")
            open_ = False
    if open_:
        both("fio.read %s 0 %d", max(1, min(size, 200000)))
        both("fio.close %s")
        both("fio.phys %s")
    return ops


def oracle(ops, outs):
    """direct reading of the property on the real outputs; returns list of problems"""
    problems = []
    pend = {}
    mode = {}
    for op, out in zip(ops, outs):
        t = op.split()
        nm = t[1]
        if out in ("fault", "died") or out.startswith("err:") or out.startswith("bad:"):
            problems.append("`%s` -> %s" % (op, out))
            continue
        if t[0] == "fio.open":
            mode[nm] = int(t[2])
        key = (t[0],) + tuple(t[2:]) if t[0] != "fio.open" else ("fio.open",)
        if nm == "a":
            pend[key] = (op, out)
            continue
        oa = pend.pop(key, None)
        if oa is None:
            continue
        opa, outa = oa
        if t[0] in ("fio.read", "fio.size", "fio.write", "fio.trunc", "fio.sync", "fio.close", "fio.open"):
            if outa != out:
                problems.append("back-ends differ: `%s` -> %s but `%s` -> %s" % (opa, outa[:80], op, out[:80]))
    return problems


def phys_oracle(ops, outs):
    """phys after close/reset = logical size; phys of a mapped mmap file is a multiple of 512 MiB"""
    problems = []
    size = {}
    state = {}   # name -> "closed" | "reset" | "open"
    mode = {}
    for op, out in zip(ops, outs):
        t = op.split()
        nm = t[1]
        if t[0] == "fio.open":
            mode[nm] = int(t[2])
            state[nm] = "open"
            if out.startswith("ok size="):
                size[nm] = int(out.split("=")[1])
        elif t[0] == "fio.size" and out.startswith("size "):
            size[nm] = int(out.split()[1])
        elif t[0] == "fio.close":
            state[nm] = "closed"
        elif t[0] == "fio.reset" and out == "ok":
            state[nm] = "reset"
        elif t[0] in ("fio.write", "fio.read", "fio.trunc"):
            if state.get(nm) == "reset":
                state[nm] = "open"
            if t[0] == "fio.write" and out == "ok":
                ln = int(t[2].split(":")[1]) if t[2].startswith("p") else 0
                size[nm] = size.get(nm, 0) + ln
            if t[0] == "fio.trunc" and out == "ok":
                size[nm] = min(size.get(nm, 0), int(t[2])) if mode.get(nm) == 1 else int(t[2])
        elif t[0] == "fio.phys" and out.startswith("phys "):
            p = int(out.split()[1])
            if state.get(nm) in ("closed", "reset") or mode.get(nm) == 0:
                if nm in size and p != size[nm]:
                    problems.append("`%s` after %s: physical size %d, logical size %d" % (op, state.get(nm), p, size[nm]))
            elif mode.get(nm) == 1 and state.get(nm) == "open":
                if p < size.get(nm, 0) or (p % B != 0 and p != size.get(nm, 0)):
                    problems.append("`%s`: mapped file has physical size %d (logical %d)" % (op, p, size.get(nm, 0)))
    return problems


def run(res, ctx, tag, n, diff_model, rng_for, backup_bias=False):
    for i in range(n):
        rng = rng_for(ctx.seed, "fio" + tag, i)
        ops = gen(rng, backup_bias=backup_bias, big=False)
        base = ctx.scratch.fresh()
        try:
            outs = run_impl(ops, base)
        finally:
            ctx.scratch.drop(base)
        res.case("\n".join(outs), len(ops) >= 10)
        res.count("fio_sequences")
        res.count("fio_calls", len(ops))
        for k in ("write", "read", "reset", "trunc", "close", "open"):
            res.count("fio_" + k, sum(1 for o in ops if o.startswith("fio." + k + " ")))
        probs = oracle(ops, outs) + phys_oracle(ops, outs)
        if probs:
            res.violation("fio sequence %s/%d: %s" % (tag, i, probs[0]), {"ops": ops, "outs": outs, "problem": probs[0]})
            continue
        d = diff_model(res, ctx, ops, outs, "fio %s %d" % (tag, i))
        if d is not None:
            j, a, b = d
            res.violation("correspondence broke on fio sequence %s/%d at `%s`: code=%s model=%s" % (tag, i, ops[j], a[:120], b[:120]),
                          {"ops": ops[:j + 1], "code": a, "model": b, "correspondence": "fio line protocol (Model/Fio.lean)"}, no_input=True)
