"""Per-property checks.  Each check_Cxx(res, ctx) explores, compares model and code, and evaluates the
property's direct oracle; the Lean obligations are handled by prelude()."""
import json
import os
import sys
import time

from . import core, engine
from .core import Result, Scratch, log, rng_for, run_impl, run_model

TRUSTED_COMMON = [
    "Lean 4.33.0 kernel; axioms allowed: propext, Classical.choice, Quot.sound (audited per theorem on every run)",
    "hand-written Lean model tied to /repo by differential execution (Go harness -tags verif vs compiled Lean driver) on the inputs listed under input_distribution",
    "Go harness, Python orchestrator/generators/oracles, Lean driver's line parser",
]


class Ctx:
    def __init__(self, pid, tier, seed):
        self.pid, self.tier, self.seed = pid, tier, seed
        self.quick = tier == "quick"
        self.scratch = Scratch(pid)
        self.model_ok = False


def prelude(res, ctx, need_race=False, lean=True):
    """build the harness from /repo, regenerate facts, re-check the Lean obligations."""
    ok, out = core.build_harness()
    if not ok:
        res.violation("harness does not build against /repo (hooks/accessors drifted?): " + out[-2000:],
                      {"stage": "go build -tags verif", "output": out[-4000:]}, no_input=True)
        return False
    if need_race:
        ok, out = core.build_harness(race=True)
        if not ok:
            res.violation("race harness does not build: " + out[-2000:], {"stage": "go build -race"}, no_input=True)
            return False
    if not lean:
        return True
    if os.path.isdir(os.path.join(core.HARNESS, "cmd", "extract")):
        ok, out = core.run_extract()
        if not ok:
            res.violation("fact extractor failed on /repo: " + out[-2000:], {"stage": "extract", "output": out[-4000:]},
                          no_input=True)
            return False
    pid = ctx.pid
    mod = "XixiKV.Properties." + pid
    thms = core.property_theorems(pid)
    res.obligations = list(thms)
    res.checker_cmd = "cd /verif/lean && lake build %s driver && lake env lean <#print axioms of each theorem>" % mod
    if ctx.tier == "thorough":
        res.checker_cmd += " && lake env leanchecker " + mod
    ok, out, dt = core.lake_build(([mod] if thms else []) + ["driver"])
    ctx.model_ok = os.path.exists(core.DRIVER) and ok
    if not thms:
        res.notes.append("no Lean theorems for this property yet")
        return True
    res.extra["lean_build_s"] = round(dt, 1)
    if not ok:
        # which obligation failed: report the first error lines
        errs = [l for l in out.split("\n") if "error" in l][:8]
        res.violation("Lean obligations of %s no longer check: %s" % (pid, " | ".join(errs)),
                      {"stage": "lake build", "module": mod, "errors": errs, "theorems": thms}, no_input=True)
        ctx.lean_broken = out
        return True   # continue: the search for a concrete failing input still runs
    hits = core.lean_sources_clean()
    if hits:
        res.violation("forbidden constructs in Lean sources: " + "; ".join(hits[:5]), {"hits": hits}, no_input=True)
    axs, raw, rc = core.audit_axioms(mod, thms)
    bad = {}
    for t in thms:
        if t not in axs:
            bad[t] = ["<not reported>"]
        else:
            extra = [a for a in axs[t] if a not in core.ALLOWED_AXIOMS]
            if extra:
                bad[t] = extra
    if bad:
        res.violation("axiom audit failed: %s" % bad, {"stage": "axiom audit", "bad": bad, "raw": raw[-2000:]}, no_input=True)
    res.discharged = [t for t in thms if t not in bad]
    res.extra["axioms"] = {t: axs.get(t, []) for t in thms}
    if ctx.tier == "thorough":
        import subprocess
        r = subprocess.run(["lake", "env", "leanchecker", mod], cwd=core.LEAN, capture_output=True, text=True)
        res.extra["leanchecker"] = "ok" if r.returncode == 0 else (r.stdout + r.stderr)[-500:]
        if r.returncode != 0:
            res.violation("leanchecker rejected " + mod, {"out": (r.stdout + r.stderr)[-2000:]}, no_input=True)
    ctx.model_ok = os.path.exists(core.DRIVER)
    return True


def diff_model(res, ctx, ops, outs, label, skip=lambda op: False):
    """compare real outputs with the model's; returns index of first disagreement or None."""
    if not ctx.model_ok:
        return None
    mouts = run_model(core.model_ops(ops))
    for i, (op, a, b) in enumerate(zip(ops, outs, mouts)):
        if b == "?" or skip(op):
            continue
        if a != b:
            return i, a, b
    res.count("model_agreed_runs")
    res.extra["traces_validated_against_impl"] = res.extra.get("traces_validated_against_impl", 0) + 1
    return None


# ====================================================================== engine-level properties

def engine_history_check(res, ctx, name, ops, oracle_kw=None, classify=None):
    """run one op list on the real engine, evaluate the reference oracle, compare with the model."""
    base = ctx.scratch.fresh()
    try:
        outs = run_impl(ops, base)
    finally:
        ctx.scratch.drop(base)
    orc = engine.run_oracle(ops, outs, **(oracle_kw or {}))
    nontrivial = len(orc.features & {"put", "get-hit", "del-hit", "batch-commit"}) >= 2
    res.case("\n".join(outs), nontrivial)
    for f in orc.features:
        res.count("feature:" + f)
    res.count("ops", len(ops))
    if orc.problems:
        i, msg = orc.problems[0]
        key = classify(ops, outs, orc) if classify else None

        def fails(cand):
            b = ctx.scratch.fresh()
            try:
                o = run_impl(cand, b)
            finally:
                ctx.scratch.drop(b)
            return bool(engine.run_oracle(cand, o, **(oracle_kw or {})).problems)
        small = ops
        if not (key and res.known.is_known(res.pid, key)):
            small = engine.shrink_ops(ops[:i + 1], fails)
        res.violation("%s: %s" % (name, msg), {"ops": small, "first_problem": msg, "full_len": len(ops)}, key=key)
        return False
    d = diff_model(res, ctx, ops, outs, name)
    if d is not None:
        i, a, b = d
        res.violation("correspondence broke on %s at op %d `%s`: code=%s model=%s (direct oracle found no failing input)" % (
            name, i, ops[i], a, b), {"ops": ops[:i + 1], "code": a, "model": b,
                                     "correspondence": "engine line protocol"}, no_input=True)
        return False
    return True


def check_C01(res, ctx):
    n = 24 if ctx.quick else 400
    steps = 120 if ctx.quick else 300
    for i in range(n):
        rng = rng_for(ctx.seed, "C01", i)
        cfg = engine.rand_cfg(rng, io=(1 if i % 6 == 5 else 0))
        g = engine.Gen(rng, cfg, nkeys=rng.choice([3, 8, 20]), weights={"reopen": 0},
                       max_val=(3 * engine.BS if i % 3 else 1200))
        ops = g.history(steps)
        if i < 2:
            res.sample({"history": i, "cfg": cfg, "ops_head": ops[:12], "n_ops": len(ops)})
        res.count("cfg:idx%d" % cfg["idx"])
        res.count("cfg:io%d" % cfg["io"])
        engine_history_check(res, ctx, "history %d" % i, ops)
    return "random histories over Put/Get/Delete/Batch/Sync/Merge/ListKeys/Fold with boundary-steered value lengths; " \
           "non-trivial = at least two of {put, get-hit, delete-hit, committed batch} occurred; distinct = distinct output transcripts"


def check_C02(res, ctx):
    n = 24 if ctx.quick else 400
    steps = 60 if ctx.quick else 150
    for i in range(n):
        rng = rng_for(ctx.seed, "C02", i)
        cfg = engine.rand_cfg(rng, io=(1 if i % 5 == 4 else 0))
        g = engine.Gen(rng, cfg, nkeys=rng.choice([3, 8, 20]), weights={"reopen": 6, "merge": 1},
                       max_val=(3 * engine.BS if i % 3 else 1200))
        ops = g.history(steps)
        # final restart under yet another configuration
        ops = ops[:-1] + ["close", engine.open_line("d", engine.rand_cfg(rng, io=0)), "dump", "stat", "close"]
        if i < 2:
            res.sample({"history": i, "cfg": cfg, "ops_head": ops[:12], "n_ops": len(ops)})
        engine_history_check(res, ctx, "history %d" % i, ops)
    return "random histories with clean restarts under changing configurations; dump before Close vs after Open"


def check_C11(res, ctx):
    from . import dfcheck
    dfcheck.geom_sweep(res, ctx)
    n = 40 if ctx.quick else 600
    for i in range(n):
        rng = rng_for(ctx.seed, "C11", i)
        ops0, written = dfcheck.df_sequence(rng, 0)
        ops1 = [o.replace("df.open t 1 0", "df.open t 1 1") for o in ops0]
        sums = []
        for io, ops in ((0, ops0), (1, ops1)):
            base = ctx.scratch.fresh()
            try:
                outs = run_impl(ops, base)
            finally:
                ctx.scratch.drop(base)
            problems, reported = dfcheck.df_oracle(ops, outs, written)
            res.case("\n".join(outs), len(written) >= 2)
            res.count("df_records", len(written))
            res.count("df_io%d" % io)
            if any(int(p.split(".")[1]) > 0 for p in reported):
                res.count("df_multiblock_files")
            if problems:
                res.violation("datafile run %d (io=%d): %s" % (i, io, problems[0]), {"ops": ops, "problem": problems[0]})
                continue
            sums.append([o for op, o in zip(ops, outs) if op == "df.sum"])
            d = diff_model(res, ctx, ops, outs, "df %d" % i)
            if d is not None:
                j, a, b = d
                res.violation("correspondence broke on datafile run %d at `%s`: code=%s model=%s" % (i, ops[j], a[:200], b[:200]),
                              {"ops": ops[:j + 1], "code": a, "model": b, "correspondence": "datafile line protocol"}, no_input=True)
        if len(sums) == 2 and sums[0] != sums[1]:
            res.violation("FileIO and MMap stored different bytes for the same writes (run %d): %s vs %s" % (i, sums[0], sums[1]),
                          {"ops": ops0, "sums": sums})
        if i < 1:
            res.sample({"df_ops_head": ops0[:8], "n_ops": len(ops0)})
    return "geometry: (start offset, length) -> (position, size, next state) for all offsets (thorough) / boundary+random offsets (quick) x " \
           "lengths ending within 8 bytes of the first three block boundaries; files: random single writes and multi-record flushes, " \
           "scan / position reads / sizes / byte sums on both I/O back-ends; non-trivial = at least two records"


def check_C12(res, ctx):
    from . import corrupt
    ndb = 3 if ctx.quick else 12
    for i in range(ndb):
        rng = rng_for(ctx.seed, "C12", i)
        corrupt.check_db(res, ctx, rng, "merged" if i % 3 == 2 else "plain", 4000 if ctx.quick else 40000)
    for i in range(4 if ctx.quick else 60):
        corrupt.random_damage(res, ctx, rng_for(ctx.seed, "C12r", i), i)
    return "every single-bit flip of every byte of the data / hint / marker files of small databases (exhaustive unless counted under files_sampled), " \
           "then Open + dump + Fold; random multi-byte overwrites, truncations, zero runs and 64-byte garbage on larger ones; oracle: every served " \
           "value was written for that key, no panic; the byte-exact model must predict the same outcome"


def crash_family(res, ctx, tag, kinds, n_quick, n_thorough, io_mix=(0, 0, 0, 0, 0, 0, 0, 1), cuts_quick="few", cuts_thorough="all", level2=False):
    from . import crashcheck
    n = n_quick if ctx.quick else n_thorough
    items = []
    for i in range(n):
        rng = rng_for(ctx.seed, tag, i)
        kind = kinds[i % len(kinds)]
        io = io_mix[i % len(io_mix)]
        nsteps = rng.choice([8, 14, 20]) if ctx.quick else rng.choice([10, 20, 30])
        if io == 1:
            nsteps = 6 if ctx.quick else 10    # every recovery of an mmap image reads its 1 GiB zero extension
        ops, cfg = crashcheck.workload(rng, io=io, kind=kind, nsteps=nsteps)
        items.append((i, kind, io, ops, cfg))

    def job(it):
        i, kind, io, ops, cfg = it
        recs, err, rc = crashcheck.run_crash(ctx, ops, mode="io", cuts=cuts_quick if ctx.quick else cuts_thorough,
                                             dumpfiles=True, level2=level2, timeout=1800)
        return recs, err, rc
    results = core.parallel_map(job, items, workers=8)
    for (i, kind, io, ops, cfg), (recs, err, rc) in zip(items, results):
        res.count("workload:" + kind)
        res.count("io%d" % io)
        crashcheck.evaluate(res, ctx, "%s workload %d (%s, io=%d)" % (tag, i, kind, io), ops, recs, err, rc, pid=ctx.pid,
                            classify=crashcheck.classify_known)
        if i < 2:
            res.sample({"workload": i, "kind": kind, "cfg": cfg, "ops": ops[:14], "events": sum(1 for r in recs if r["kind"] == "event"),
                        "images": sum(1 for r in recs if r["kind"] == "image")})
    res.extra["crash_points_visited"] = res.dist.get("images", 0)


def check_C03(res, ctx):
    crash_family(res, ctx, "C03", ["mixed", "mixed", "batch", "sync-batch"], 16, 160)
    return "every intercepted I/O event of short workloads is a crash point (process death image) and, for files with an unsynced tail, " \
           "power-loss images cut to synced / middle / all-but-one byte (thorough: every length for tails <= 300 bytes and +-12 around block " \
           "boundaries); oracle: Open succeeds, the recovered mapping is the reference state after j acknowledged mutations with " \
           "last-sync <= j <= acknowledged(+1 in flight), and the recovered database keeps working; distinct = (event kind, cut?, recovered dump)"


def check_C04(res, ctx):
    crash_family(res, ctx, "C04", ["batch", "batch", "sync-batch"], 12, 120)
    # durability across clean restarts, later histories with merges
    n = 10 if ctx.quick else 150
    for i in range(n):
        rng = rng_for(ctx.seed, "C04h", i)
        cfg = engine.rand_cfg(rng, io=(1 if i % 5 == 4 else 0), fs=rng.choice([4096, 20000, 65536]))
        g = engine.Gen(rng, cfg, nkeys=6, weights={"batch": 30, "put": 10, "reopen": 6, "merge": 3}, max_val=30000)
        ops = g.history(50 if ctx.quick else 120)
        engine_history_check(res, ctx, "batch history %d" % i, ops)
    return "crash images at every I/O event of batch commits (batches of 0..20 ops, sizes up to several files): recovered state is the state " \
           "before or after the whole batch composed with a prefix; plus batch-heavy histories with merges and restarts against the reference map"


def check_C13(res, ctx):
    from . import crashcheck
    n = 24 if ctx.quick else 400
    for i in range(n):
        rng = rng_for(ctx.seed, "C13", i)
        sync = [0, 1, 2, 2][i % 4]
        cfg = {"fs": rng.choice([4096, 20000, 65536]), "sync": sync, "bps": rng.choice([1, 100, 4096, 1 << 20]) if sync == 2 else 0,
               "idx": rng.choice([1, 2, 3]), "io": 1 if i % 6 == 5 else 0, "shards": 16}
        g = engine.Gen(rng, cfg, nkeys=5, weights={"reopen": 2, "merge": 1, "keys": 0, "fold": 0, "dump": 0, "stat": 0, "getabsent": 0,
                                                   "emptykey": 0, "get": 1, "sync": 5, "batch": 12}, max_val=rng.choice([200, 5000, 40000]))
        ops = [o for o in g.history(30 if ctx.quick else 60) if o.split()[0] not in ("dump", "stat", "files")]
        recs, err, rc = crashcheck.run_crash(ctx, ops, mode="points", cuts="none", dumpfiles=False)
        if rc != 0:
            res.violation("C13 run %d died: %s" % (i, err[-300:]), {"ops": ops})
            continue
        problems = crashcheck.sync_policy_check(res, "run %d" % i, ops, recs)
        res.case("%d|%s" % (i, len(recs)), True)
        res.count("strategy%d" % sync)
        res.count("io%d" % cfg["io"])
        res.count("sync_events", sum(1 for r in recs if r["kind"] == "event" and r["ev"] == "sync"))
        if problems:
            res.violation("run %d (%s): %s" % (i, cfg, problems[0]), {"ops": ops, "problems": problems[:5], "cfg": cfg})
        if i < 2:
            res.sample({"cfg": cfg, "ops": ops[:10], "events": [(r["ev"], r["file"], r["n"]) for r in recs if r["kind"] == "event"][:12]})
    return "operation sequences under each SyncStrategy / BytesPerSync / batch Sync option / I/O type; the per-file write/sync event log is " \
           "inspected at the return of every public call: Always => nothing unflushed; Threshold => < BytesPerSync record bytes unflushed; " \
           "Sync batch => nothing unflushed at Commit; Sync()/Close() => nothing unflushed; a file is flushed before a new data file is created"


def exact_check(res, ctx, name, ops, exp, nontrivial=True):
    """run ops on the real engine, compare with expected outputs (None = don't care) and with the model"""
    base = ctx.scratch.fresh()
    try:
        outs = run_impl(ops, base)
    finally:
        ctx.scratch.drop(base)
    res.case("\n".join(outs), nontrivial)
    res.count("ops", len(ops))
    for i, (op, o, e) in enumerate(zip(ops, outs, exp)):
        if e is not None and o != e:
            res.violation("%s: `%s` -> %s, expected %s" % (name, op, o[:200], e[:200]), {"ops": ops[:i + 1], "got": o, "expected": e})
            return False
        if o.startswith(("panic:", "died", "dead")):
            res.violation("%s: `%s` -> %s" % (name, op, o), {"ops": ops[:i + 1]})
            return False
    d = diff_model(res, ctx, ops, outs, name)
    if d is not None:
        i, a, b = d
        res.violation("correspondence broke on %s at op %d `%s`: code=%s model=%s" % (name, i, ops[i], a[:200], b[:200]),
                      {"ops": ops[:i + 1], "code": a, "model": b, "correspondence": "line protocol"}, no_input=True)
        return False
    return True


def check_C10(res, ctx):
    from . import itercheck
    n = 120 if ctx.quick else 3000
    for i in range(n):
        rng = rng_for(ctx.seed, "C10ix", i)
        typ = 1 + i % 3
        shards = [1, 2, 3, 16, 1024][(i // 3) % 5]
        ops, exp = itercheck.index_level(rng, typ, shards, 40 if ctx.quick else 80)
        res.count("index_type%d" % typ)
        res.count("shards%d" % shards)
        exact_check(res, ctx, "index-level iterator run %d (type %d, %d shards)" % (i, typ, shards), ops, exp)
        if i == 0:
            res.sample({"index_level_ops": ops[:20]})
    n = 30 if ctx.quick else 600
    for i in range(n):
        rng = rng_for(ctx.seed, "C10db", i)
        cfg = engine.rand_cfg(rng, io=0, fs=rng.choice([4096, 65536]))
        cfg["idx"] = 1 + i % 3
        ops, exp = itercheck.db_level(rng, engine.open_line("d", cfg), 40 if ctx.quick else 80)
        res.count("db_level")
        exact_check(res, ctx, "DB iterator run %d" % i, ops, exp)
        if i == 0:
            res.sample({"db_level_ops": ops[:20]})
    # ListKeys / Fold visit the same snapshot: covered by the reference oracle of the C01 histories; one here
    rng = rng_for(ctx.seed, "C10lk")
    g = engine.Gen(rng, engine.rand_cfg(rng, io=0), nkeys=30, weights={"keys": 10, "fold": 10, "reopen": 0})
    engine_history_check(res, ctx, "ListKeys/Fold history", g.history(100))
    return "index level: ShardedIndex x {btree, skiplist, map} x requested shards {1,2,3,16,1024}, random key sets with shared prefixes, two " \
           "iterators per run, admissible Rewind/Seek/Next sequences (seek targets at or ahead of the cursor), writes after creation; DB level: " \
           "prefix and direction, values by captured position; oracle: abstract cursor over the sorted snapshot"


def check_C05(res, ctx):
    n = 30 if ctx.quick else 500
    for i in range(n):
        rng = rng_for(ctx.seed, "C05", i)
        cfg = engine.rand_cfg(rng, io=(1 if i % 7 == 6 else 0), fs=rng.choice([4096, 4096, 20000, 65536]))
        g = engine.Gen(rng, cfg, nkeys=rng.choice([3, 6]), weights={"batch": 40, "put": 25, "del": 6, "get": 4, "reopen": 1, "merge": 1,
                                                                    "keys": 0, "fold": 0, "stat": 0}, max_val=rng.choice([600, 3000, 30000]))
        ops = g.history(40 if ctx.quick else 80)
        res.count("fs%d" % cfg["fs"])
        engine_history_check(res, ctx, "batch history %d" % i, ops)
        if i < 1:
            res.sample({"ops_head": ops[:25]})
    return "batch-heavy histories (0..20 staged ops per batch, repeated put/delete/put on one key, reads of staged, deleted and base values, " \
           "base values in rotated files via small DataFileSize, batches that overflow the file mid-way, use after commit, empty commits); " \
           "oracle: layered reference map; the byte-exact model must agree on every result, Stat and file listing"


def check_C06(res, ctx):
    from . import conccheck
    n = 24 if ctx.quick else 400
    for i in range(n):
        rng = rng_for(ctx.seed, "C06", i)
        cfg = engine.rand_cfg(rng, io=(1 if i % 6 == 5 else 0), fs=rng.choice([4096, 4096, 20000, 65536]))
        g = engine.Gen(rng, cfg, nkeys=rng.choice([4, 8]), weights={"merge": 8, "reopen": 8, "batch": 8, "put": 30, "del": 8, "keys": 0, "fold": 0},
                       max_val=rng.choice([1000, 3000, 9000]))
        ops = g.history(60 if ctx.quick else 120)
        # after every successful merge + adopting restart the merge directory must be gone
        out_ops = []
        for op in ops:
            out_ops.append(op)
            if op.startswith("open "):
                out_ops.append("files d-merge")
                out_ops.append("scanstat")
        ok = engine_history_check(res, ctx, "merge history %d" % i, out_ops)
        if i < 1:
            res.sample({"ops_head": out_ops[:25]})
    # direct checks on adoption: merge dir gone, no tombstones / sealing records in adopted files
    for i in range(8 if ctx.quick else 100):
        rng = rng_for(ctx.seed, "C06a", i)
        fs = rng.choice([4096, 20000])
        fs2 = rng.choice([fs, fs, 4096, 65536])
        cfg = engine.rand_cfg(rng, io=rng.choice([0, 0, 1]), fs=fs)
        g = engine.Gen(rng, cfg, nkeys=6, weights={"merge": 0, "reopen": 0, "batch": 10, "keys": 0, "fold": 0, "dump": 0, "stat": 0}, max_val=2500)
        ops = g.history(40)[:-3]
        cfg2 = dict(cfg, fs=fs2)
        ops += ["close", engine.open_line("d", cfg2), "active", "merge", "dump", "put 7171 x01", "del 7171", "close", engine.open_line("d", cfg2), "files d-merge", "scanstat", "dump", "close",
                engine.open_line("d", cfg), "dump", "close"]
        base = ctx.scratch.fresh()
        try:
            outs = run_impl(ops, base)
        finally:
            ctx.scratch.drop(base)
        orc = engine.run_oracle(ops, outs)
        res.case("\n".join(outs[-12:]), True)
        j = ops.index("merge")
        merged = outs[j] == "ok"
        res.count("merge_ok" if merged else "merge_refused:" + outs[j])
        if orc.problems:
            res.violation("adoption run %d: %s" % (i, orc.problems[0][1]), {"ops": ops})
            continue
        if merged:
            a = int(outs[j - 1].split()[1])
            fm = outs[ops.index("files d-merge")]
            sc = outs[ops.index("scanstat")]
            if fm != "files absent":
                res.violation("adoption run %d: merge directory still present after the adopting restart: %s" % (i, fm), {"ops": ops})
                continue
            files = sc.split("files=")[1].split(",") if "files=" in sc else []
            for f in files:
                fid, size, recs, fins, nbytes, status = f.split(":")
                if int(fid) <= a and int(fins) != 0:
                    res.violation("adoption run %d: adopted file %s still holds batch sealing records: %s" % (i, fid, sc), {"ops": ops})
        d = diff_model(res, ctx, ops, outs, "adoption run %d" % i)
        if d is not None:
            k, x, y = d
            res.violation("correspondence broke on adoption run %d at `%s`: code=%s model=%s" % (i, ops[k], x[:200], y[:200]),
                          {"ops": ops[:k + 1], "code": x, "model": y, "correspondence": "engine line protocol"}, no_input=True)
    conccheck.check_merge_concurrent(res, ctx, rng_for(ctx.seed, "C06c"), [1, 3] if ctx.quick else [1, 2, 3], 6 if ctx.quick else 60)
    return "histories mixing plain and batch writes, deletes, several merges and restarts, with DataFileSize changed between runs so the merged " \
           "output needs fewer / equal / more files than the input (Merge may refuse with the id-conflict error); dumps after merge, after the " \
           "adopting restart and after a second restart against the reference map; merge directory gone; forced schedules pausing Merge inside " \
           "its scan loop while Puts/Deletes run"


def check_C07(res, ctx):
    crash_family(res, ctx, "C07", ["merge"], 6, 120, io_mix=(0, 0, 0, 0, 0, 0, 0, 0, 0, 0, 0, 1), cuts_quick="none", cuts_thorough="none",
                 level2=not ctx.quick)
    return "every I/O event and every crash point (merge phases, each rename / remove / hint move / marker removal / directory removal of the " \
           "adoption step) of histories with Merge and restarts is a crash image; each image is reopened once and twice and must show exactly the " \
           "mapping acknowledged before the crash; the model recovers the same image bytes and must agree"


def check_C08(res, ctx):
    from . import conccheck
    conccheck.check_kv_schedules(res, ctx, [1, 3] if ctx.quick else [1, 2, 3])
    # free-running clients: live mapping vs restart at quiescence
    for i in range(2 if ctx.quick else 12):
        rep, err, rc = conccheck.run_race(ctx, 3 if ctx.quick else 20, [2, 8, 16][i % 3], 1 + i % 3, 0, ctx.seed * 100 + i, race=False)
        res.evaluations += 1
        res.count("free_running")
        if rep is None or rep.get("stuck") or rep.get("panics") or not rep.get("restart_agrees", False):
            res.violation("free-running clients (run %d): %s" % (i, json.dumps(rep)[:400] if rep else err[-300:]),
                          {"cmd": "xkv race", "report": rep, "stderr": err[-2000:]})
        else:
            res.distinct.add("free%d" % i)
    return "all two-client schedules on one key for {Put,Delete} x {Put,Delete,Get}: client A paused at each schedule point (after the log append / " \
           "after Delete's existence check), client B run meanwhile; observed: whether B got through or blocked on the DB mutex, both results, live " \
           "dump, dump after restart; oracle: live = restart, results explained by a sequential order, no index-update-failed; the interleaving " \
           "observed must be a run of the Lean step relation under the shape computed from the regenerated lockset table; plus free-running clients"


def check_C09(res, ctx):
    from . import conccheck
    conccheck.check_listkeys(res, ctx, [1, 2, 3])
    conccheck.check_kv_schedules(res, ctx, [1])
    runs = [(1, 0), (2, 0), (3, 0)] if ctx.quick else [(1, 0), (2, 0), (3, 0), (1, 1), (3, 1)]
    secs = 12 if ctx.quick else 120
    results = core.parallel_map(lambda x: conccheck.run_race(ctx, secs, 8, x[0], x[1], ctx.seed, race=True), runs, workers=3)
    third_party = 0
    for (idx, io), (rep, err, rc) in zip(runs, results):
        res.evaluations += 1
        res.count("race_runs")
        name = "race-detector stress (index %d, io %d, 8 goroutines, %ds)" % (idx, io, secs)
        if rep is None:
            res.violation("%s died: %s" % (name, err[-400:]), {"cmd": "xkv-race race", "stderr": err[-3000:]})
            continue
        for k, v in rep.get("counts", {}).items():
            res.count("race_op:" + k, v)
        reports = conccheck.race_reports(err)
        own = [r for r in reports if r["in_xixi"]]
        third_party += len(reports) - len(own)
        if own:
            res.violation("%s: %d data race report(s) involving xixi-kv code, first: %s" % (name, len(own), own[0]["frames"][:4]),
                          {"cmd": "xkv-race race <dir> %d 8 %d %d %d" % (secs, idx, io, ctx.seed), "reports": own[:3]})
        if rep.get("panics"):
            res.violation("%s: recovered panics %s" % (name, rep["panics"]), {"report": rep})
        if rep.get("stuck"):
            res.violation("%s: goroutines stuck (deadlock?)" % name, {"report": {k: v for k, v in rep.items() if k != "stacks"}, "stacks": rep.get("stacks", "")[:3000]})
        if rep.get("errors"):
            res.violation("%s: individually valid operations returned errors %s" % (name, rep["errors"]), {"report": rep})
        if not rep.get("stuck") and rep.get("restart_agrees") is False:
            res.violation("%s: live mapping differs from restart at quiescence" % name, {"report": rep})
        res.distinct.add("race%d%d:%s" % (idx, io, sorted(rep.get("counts", {}).items())))
    res.extra["race_reports_only_in_third_party_code"] = third_party
    res.notes.append("partial by design: the race detector sees only executed schedules; races inside google/btree, huandu/skiplist, mmap-go are counted "
                     "separately and not attributed to the engine")
    return "decide obligations on the regenerated lockset table (lock discipline, no re-acquisition, release at return); forced schedules for ListKeys " \
           "(paused between snapshot and copy) and for racing Put/Delete; -race built stress of 8 goroutines over Put/Get/Delete/ListKeys/Fold/iterators/" \
           "Stat/Sync/batches/Merge per index type with small files: data-race reports, recovered panics, watchdog, unexpected error classes"


CHECKS = {
    "C01": check_C01,
    "C02": check_C02,
    "C11": check_C11,
    "C12": check_C12,
    "C03": check_C03,
    "C04": check_C04,
    "C13": check_C13,
    "C10": check_C10,
    "C05": check_C05,
    "C06": check_C06,
    "C07": check_C07,
    "C08": check_C08,
    "C09": check_C09,
}

ASSUME = {
}


def main(argv):
    if not argv:
        print("usage: check <id> [quick|thorough]")
        return 2
    pid = argv[0]
    tier = argv[1] if len(argv) > 1 and argv[1] in ("quick", "thorough") else os.environ.get("VERIF_TIER", "quick")
    seed = int(os.environ.get("VERIF_SEED", "1"))
    if "--replay" in argv:
        from . import replay
        return replay.replay(pid, argv[argv.index("--replay") + 1])
    res = Result(pid, tier, seed)
    ctx = Ctx(pid, tier, seed)
    res.trusted = list(TRUSTED_COMMON)
    try:
        fn = CHECKS[pid]
        need_race = pid in ("C09",)
        rule = ""
        if prelude(res, ctx, need_race=need_race):
            rule = fn(res, ctx) or ""
        res.assumptions = ASSUME.get(pid, [])
        return res.finish(level="proof", rule=rule)
    finally:
        ctx.scratch.close()
