"""Per-property checks.  Each check_Cxx(res, ctx) explores, compares model and code, and evaluates the
property's direct oracle; the Lean obligations are handled by prelude()."""
import json
import os
import re
import sys
import time

from . import core, engine
from .core import Result, Scratch, log, rng_for, run_impl, run_model

TRUSTED_COMMON = [
    "Lean 4.33.0 kernel; axioms allowed: propext, Classical.choice, Quot.sound (audited per theorem on every run)",
    "hand-written Lean model tied to /repo by differential execution (Go harness -tags verif vs compiled Lean driver) on the inputs listed under input_distribution",
    "Go harness, Python orchestrator/generators/oracles, Lean driver's line parser",
    "facts regenerated from /repo's Go AST on every run: constants and lockset table (harness/cmd/extract), mechanical Go->Lean translation of "
    "writeToBuf / readToBuf / DecodeChunk / record and hint codecs / GetLogRecordDiskSize / nextPowerOfTwo / remap arithmetic / the codecs of datatype/meta.go and the "
    "string record of Set/Get (harness/cmd/trans; its subset, effect and primitive tables are trusted; Go panics, read errors and nil-vs-empty are not modelled)",
]


class Ctx:
    def __init__(self, pid, tier, seed):
        self.pid, self.tier, self.seed = pid, tier, seed
        self.quick = tier == "quick"
        self.scratch = Scratch(pid)
        self.model_ok = False


def prelude(res, ctx, need_race=False, lean=True):
    """build the harness from /repo, regenerate facts, re-check the Lean obligations."""
    ok, out = core.build_harness()
    if not ok:
        res.violation("harness does not build against /repo (hooks/accessors drifted?): " + out[-2000:],
                      {"stage": "go build -tags verif", "output": out[-4000:]}, no_input=True)
        return False
    if need_race:
        ok, out = core.build_harness(race=True)
        if not ok:
            res.violation("race harness does not build: " + out[-2000:], {"stage": "go build -race"}, no_input=True)
            return False
    if not lean:
        return True
    if os.path.isdir(os.path.join(core.HARNESS, "cmd", "extract")):
        ok, out = core.run_extract()
        if not ok:
            res.violation("fact extractor failed on /repo: " + out[-2000:], {"stage": "extract", "output": out[-4000:]},
                          no_input=True)
            return False
    if os.path.isdir(os.path.join(core.HARNESS, "cmd", "trans")):
        ok, out = core.run_trans()
        if not ok:
            # not fatal here: the stub it leaves makes the translated-function theorems fail to check below
            res.notes.append("translator could not translate /repo's current source: " + out[-600:])
    pid = ctx.pid
    mods = core.property_modules(pid)
    mod = " ".join(mods)
    thms = core.property_theorems(pid)
    res.obligations = list(thms)
    res.checker_cmd = "cd /verif/lean && lake build %s driver && lake env lean <#print axioms of each theorem>" % mod
    if ctx.tier == "thorough":
        res.checker_cmd += " && lake env leanchecker " + mod
    consts = pid not in ("C08", "C09", "C15", "C16", "C19")
    if consts:
        thms = thms + ["XixiKV.ConstsCheck.consts_match"]
        res.obligations = list(thms)
    ok, out, dt = core.lake_build((mods if thms else []) + (["XixiKV.Proofs.ConstsCheck"] if consts else []) + ["driver"])
    ctx.model_ok = os.path.exists(core.DRIVER) and ok
    if not thms:
        res.notes.append("no Lean theorems for this property yet")
        return True
    res.extra["lean_build_s"] = round(dt, 1)
    if not ok:
        # which obligation failed: report the first error lines
        errs = [l for l in out.split("\n") if "error" in l][:8]
        res.violation("Lean obligations of %s no longer check: %s" % (pid, " | ".join(errs)),
                      {"stage": "lake build", "module": mod, "errors": errs, "theorems": thms}, no_input=True)
        ctx.lean_broken = out
        # the model driver does not depend on the property modules: keep the correspondence available for the search
        ok2, _, _ = core.lake_build(["driver"])
        ctx.model_ok = ok2 and os.path.exists(core.DRIVER)
        return True   # continue: the search for a concrete failing input still runs
    hits = core.lean_sources_clean()
    if hits:
        res.violation("forbidden constructs in Lean sources: " + "; ".join(hits[:5]), {"hits": hits}, no_input=True)
    axs, raw, rc = core.audit_axioms("\nimport ".join(mods) + ("\nimport XixiKV.Proofs.ConstsCheck" if consts else ""), thms)
    bad = {}
    for t in thms:
        if t not in axs:
            bad[t] = ["<not reported>"]
        else:
            extra = [a for a in axs[t] if a not in core.ALLOWED_AXIOMS]
            if extra:
                bad[t] = extra
    if bad:
        res.violation("axiom audit failed: %s" % bad, {"stage": "axiom audit", "bad": bad, "raw": raw[-2000:]}, no_input=True)
    res.discharged = [t for t in thms if t not in bad]
    res.extra["axioms"] = {t: axs.get(t, []) for t in thms}
    if ctx.tier == "thorough":
        import subprocess
        r = subprocess.run(["lake", "env", "leanchecker"] + mods, cwd=core.LEAN, capture_output=True, text=True)
        res.extra["leanchecker"] = "ok" if r.returncode == 0 else (r.stdout + r.stderr)[-500:]
        if r.returncode != 0:
            res.violation("leanchecker rejected " + mod, {"out": (r.stdout + r.stderr)[-2000:]}, no_input=True)
    ctx.model_ok = os.path.exists(core.DRIVER)
    return True


def diff_model(res, ctx, ops, outs, label, skip=lambda op: False, orders=None):
    """compare real outputs with the model's; returns index of first disagreement or None."""
    if not ctx.model_ok:
        return None
    mouts = run_model(core.model_ops(ops, orders))
    for i, (op, a, b) in enumerate(zip(ops, outs, mouts)):
        if b == "?" or skip(op):
            continue
        if a != b and op.startswith("files ") and op.endswith("-merge") and ".merge-finished" not in a and ".merge-finished" not in b \
                and a != "files absent" and b != "files absent":
            # marker-less merge directory (abandoned or unfinished merge): ignored by Open, its listing is not modelled
            res.count("unmodelled_markerless_merge_dir_listing")
            continue
        if a != b:
            return i, a, b
    res.count("model_agreed_runs")
    res.extra["traces_validated_against_impl"] = res.extra.get("traces_validated_against_impl", 0) + 1
    return None


# ====================================================================== engine-level properties

def engine_history_check(res, ctx, name, ops, oracle_kw=None, classify=None):
    """run one op list on the real engine, evaluate the reference oracle, compare with the model."""
    base = ctx.scratch.fresh()
    try:
        outs = run_impl(ops, base)
    finally:
        ctx.scratch.drop(base)
    orc = engine.run_oracle(ops, outs, **(oracle_kw or {}))
    nontrivial = len(orc.features & {"put", "get-hit", "del-hit", "batch-commit"}) >= 2
    res.case("\n".join(outs), nontrivial)
    for f in orc.features:
        res.count("feature:" + f)
    res.count("ops", len(ops))
    if orc.problems:
        i, msg = orc.problems[0]
        key = classify(ops, outs, orc) if classify else None

        def fails(cand):
            b = ctx.scratch.fresh()
            try:
                o = run_impl(cand, b)
            finally:
                ctx.scratch.drop(b)
            return bool(engine.run_oracle(cand, o, **(oracle_kw or {})).problems)
        small = ops
        if not (key and res.known.is_known(res.pid, key)):
            small = engine.shrink_ops(ops[:i + 1], fails)
        res.violation("%s: %s" % (name, msg), {"ops": small, "first_problem": msg, "full_len": len(ops)}, key=key)
        return False
    d = diff_model(res, ctx, ops, outs, name)
    if d is not None:
        i, a, b = d
        res.violation("correspondence broke on %s at op %d `%s`: code=%s model=%s (direct oracle found no failing input)" % (
            name, i, ops[i], a, b), {"ops": ops[:i + 1], "code": a, "model": b,
                                     "correspondence": "engine line protocol"}, no_input=True)
        return False
    return True


def check_C01(res, ctx):
    n = 24 if ctx.quick else 400
    steps = 120 if ctx.quick else 300
    for i in range(n):
        rng = rng_for(ctx.seed, "C01", i)
        cfg = engine.rand_cfg(rng, io=(1 if i % 6 == 5 else 0))
        g = engine.Gen(rng, cfg, nkeys=rng.choice([3, 8, 20]), weights={"reopen": 0},
                       max_val=(3 * engine.BS if i % 3 else 1200))
        ops = g.history(steps)
        if i < 2:
            res.sample({"history": i, "cfg": cfg, "ops_head": ops[:12], "n_ops": len(ops)})
        res.count("cfg:idx%d" % cfg["idx"])
        res.count("cfg:io%d" % cfg["io"])
        engine_history_check(res, ctx, "history %d" % i, ops)
    return "random histories over Put/Get/Delete/Batch/Sync/Merge/ListKeys/Fold with boundary-steered value lengths; " \
           "non-trivial = at least two of {put, get-hit, delete-hit, committed batch} occurred; distinct = distinct output transcripts"


def check_C02(res, ctx):
    n = 24 if ctx.quick else 400
    steps = 60 if ctx.quick else 150
    for i in range(n):
        rng = rng_for(ctx.seed, "C02", i)
        cfg = engine.rand_cfg(rng, io=(1 if i % 5 == 4 else 0))
        g = engine.Gen(rng, cfg, nkeys=rng.choice([3, 8, 20]), weights={"reopen": 6, "merge": 1, "badopen": 1},
                       max_val=(3 * engine.BS if i % 3 else 1200))
        ops = g.history(steps)
        # final restart under yet another configuration
        ops = ops[:-1] + ["close", engine.open_line("d", engine.rand_cfg(rng, io=0)), "dump", "stat", "close"]
        if i < 2:
            res.sample({"history": i, "cfg": cfg, "ops_head": ops[:12], "n_ops": len(ops)})
        engine_history_check(res, ctx, "history %d" % i, ops)
    return "random histories with clean restarts under changing configurations; dump before Close vs after Open"


def check_C11(res, ctx):
    from . import dfcheck
    dfcheck.geom_sweep(res, ctx)
    n = 40 if ctx.quick else 600
    for i in range(n):
        rng = rng_for(ctx.seed, "C11", i)
        ops0, written = dfcheck.df_sequence(rng, 0)
        ops1 = [o.replace("df.open t 1 0", "df.open t 1 1") for o in ops0]
        sums = []
        for io, ops in ((0, ops0), (1, ops1)):
            base = ctx.scratch.fresh()
            try:
                outs = run_impl(ops, base)
            finally:
                ctx.scratch.drop(base)
            problems, reported = dfcheck.df_oracle(ops, outs, written)
            res.case("\n".join(outs), len(written) >= 2)
            res.count("df_records", len(written))
            res.count("df_io%d" % io)
            if any(int(p.split(".")[1]) > 0 for p in reported):
                res.count("df_multiblock_files")
            if problems:
                res.violation("datafile run %d (io=%d): %s" % (i, io, problems[0]), {"ops": ops, "problem": problems[0]})
                continue
            sums.append([o for op, o in zip(ops, outs) if op == "df.sum"])
            d = diff_model(res, ctx, ops, outs, "df %d" % i)
            if d is not None:
                j, a, b = d
                res.violation("correspondence broke on datafile run %d at `%s`: code=%s model=%s" % (i, ops[j], a[:200], b[:200]),
                              {"ops": ops[:j + 1], "code": a, "model": b, "correspondence": "datafile line protocol"}, no_input=True)
        if len(sums) == 2 and sums[0] != sums[1]:
            res.violation("FileIO and MMap stored different bytes for the same writes (run %d): %s vs %s" % (i, sums[0], sums[1]),
                          {"ops": ops0, "sums": sums})
        if i < 1:
            res.sample({"df_ops_head": ops0[:8], "n_ops": len(ops0)})
    from . import fiocheck
    fiocheck.run(res, ctx, "C11", 12 if ctx.quick else 200, diff_model, rng_for)
    return "geometry: (start offset, length) -> (position, size, next state) for all offsets (thorough) / boundary+random offsets (quick) x " \
           "lengths ending within 8 bytes of the first three block boundaries; files: random single writes and multi-record flushes, " \
           "scan / position reads / sizes / byte sums on both I/O back-ends; non-trivial = at least two records"


def check_C12(res, ctx):
    from . import corrupt
    ndb = 3 if ctx.quick else 36
    for i in range(ndb):
        rng = rng_for(ctx.seed, "C12", i)
        corrupt.check_db(res, ctx, rng, "merged" if i % 3 == 2 else "plain", 4000 if ctx.quick else 40000)
    for i in range(1 if ctx.quick else 16):
        corrupt.check_db(res, ctx, rng_for(ctx.seed, "C12m", i), "multiblock", 0)
    for i in range(4 if ctx.quick else 300):
        corrupt.random_damage(res, ctx, rng_for(ctx.seed, "C12r", i), i)
    for i in range(2 if ctx.quick else 30):
        corrupt.check_truncated_hinted(res, ctx, rng_for(ctx.seed, "C12t", i))
    for i in range(1 if ctx.quick else 12):
        corrupt.check_structural(res, ctx, rng_for(ctx.seed, "C12s", i))
    for i in range(2 if ctx.quick else 24):
        corrupt.check_truncate_then_write(res, ctx, rng_for(ctx.seed, "C12w", i))
    return "every single-bit flip of every byte of the data / hint / marker files of small databases (exhaustive unless counted under files_sampled), " \
           "then Open + dump + Fold; random multi-byte overwrites, truncations (also exactly at block boundaries), cut-out ranges, zero runs and " \
           "64-byte garbage on larger ones; structural damage that keeps every chunk checksum valid (record cut between two of its chunks, missing " \
           "block, swapped chunks); oracle: every served value was written for that key, no panic; the byte-exact model must predict the same outcome"


def crash_family(res, ctx, tag, kinds, n_quick, n_thorough, io_mix=(0, 0, 0, 0, 0, 0, 0, 1), cuts_quick="few", cuts_thorough="all", level2=False,
                 postmerge=False):
    from . import crashcheck
    n = n_quick if ctx.quick else n_thorough
    items = []
    for i in range(n):
        rng = rng_for(ctx.seed, tag, i)
        kind = kinds[i % len(kinds)]
        io = io_mix[i % len(io_mix)]
        nsteps = rng.choice([8, 14, 20]) if ctx.quick else rng.choice([10, 20, 30])
        if io == 1:
            nsteps = 6 if ctx.quick else 10    # every recovery of an mmap image reads its 1 GiB zero extension
            if kind == "merge-multi":
                kind = "merge"                 # (the multi-file merge workloads have hundreds of crash points: hours under mmap)
        if kind == "merge-multi":
            ops, cfg = crashcheck.merge_workload(rng, io=io, double=(i % 2 == 0))
        else:
            ops, cfg = crashcheck.workload(rng, io=io, kind=kind, nsteps=nsteps)
        items.append((i, kind, io, ops, cfg))
    froms = {}
    # a memory-mapped workload is crashed only during its second half (every image costs seconds: each recovery reads and clears
    # the 512 MiB extension of every file)
    for (i, kind, io, ops, cfg) in items:
        if io == 1:
            froms[i] = len(ops) // 2
    if tag == "C03":
        # directed: a power failure persists the first part of a large record whose bytes decode as SHORT chunks (0x01...: length 257);
        # recovery cuts it away; a short write follows; then a second crash without Close.  Whatever recovery cut away logically must
        # not resurface behind the new record (memory-mapped files are pre-extended: the stale bytes are still in the file).
        for io in (1, 0):
            cfg = {"fs": 65536, "sync": 0, "bps": 0, "idx": 1, "io": io, "shards": 4}
            # (crash points: only the I/O events of the last, tiny Put - the large record in front of it is the unsynced tail)
            ops = [engine.open_line("d", cfg), "put 6b31 x11", "sync", "put 6b32 x" + "01" * 4000, "put 6b33 x33"]
            froms[len(items)] = 4
            items.append((len(items), "double-crash", io, ops, cfg))
    if tag == "C07":
        # directed: a Merge that ABANDONS itself (ErrMergeFileIDConflict: its output would need the id of a file that did not take
        # part - here because an oversized record makes the merge instance leave an empty file behind, depending on the order in which
        # the file map is walked).  A refusal is an outcome the caller can handle; every crash point of it must still recover everything
        cfg = {"fs": 4096, "sync": 1, "bps": 4096, "idx": 2, "io": 0, "shards": 1}
        ops = ["open d 65536 0 0 1 0 5000", "put d08d872f95ee p1:1224", "close", "open d 4096 1 4096 2 0 1", "put 514c p2:127",
               "put 4257ff82 p3:4325", "merge", "put 514d p4:50", "merge"]
        items.append((len(items), "merge-abandoned", 0, ops, cfg))

    def job(it):
        i, kind, io, ops, cfg = it
        # every recovery of a memory-mapped image reads its zero extension (about a second): sampled cuts only
        cuts = cuts_quick if (ctx.quick or (io == 1 and cuts_thorough == "all")) else cuts_thorough
        if tag == "C07" and ctx.quick and kind == "merge-multi":
            cuts = "none"      # quick tier: power-loss cuts (torn active file + pending adoption) only on the short merge workloads
        recs, err, rc = crashcheck.run_crash(ctx, ops, mode="io", cuts=cuts, from_op=froms.get(i, 0),
                                             dumpfiles=True, level2=(level2 and io == 0), timeout=3600, postmerge=postmerge)
        return recs, err, rc
    results = core.parallel_map(job, items, workers=8)
    for (i, kind, io, ops, cfg), (recs, err, rc) in zip(items, results):
        res.count("workload:" + kind)
        res.count("io%d" % io)
        crashcheck.evaluate(res, ctx, "%s workload %d (%s, io=%d)" % (tag, i, kind, io), ops, recs, err, rc, pid=ctx.pid,
                            classify=crashcheck.classify_known)
        if i < 2:
            res.sample({"workload": i, "kind": kind, "cfg": cfg, "ops": ops[:14], "events": sum(1 for r in recs if r["kind"] == "event"),
                        "images": sum(1 for r in recs if r["kind"] == "image")})
    res.extra["crash_points_visited"] = res.dist.get("images", 0)


def check_C03(res, ctx):
    crash_family(res, ctx, "C03", ["mixed", "mixed", "batch", "sync-batch"], 10, 64)
    # the crash enumeration is sequential; crashes that need a second goroutine (a Merge scanning while a batch is open and the
    # process dies; writes racing with a Merge and a power failure after it) are the scenarios D and E of xkv batchvis
    from . import conccheck
    conccheck.check_batch_visibility(res, ctx, [(1, 0)] if ctx.quick else [(1, 0), (2, 0), (3, 0)])
    return "every intercepted I/O event of short workloads is a crash point (process death image) and, for files with an unsynced tail, " \
           "power-loss images cut to synced / middle / all-but-one byte (thorough: every length for tails <= 300 bytes and +-12 around block " \
           "boundaries); oracle: Open succeeds, the recovered mapping is the reference state after j acknowledged mutations with " \
           "last-sync <= j <= acknowledged(+1 in flight), and the recovered database keeps working; distinct = (event kind, cut?, recovered dump)"


def check_C04(res, ctx):
    crash_family(res, ctx, "C04", ["batch", "batch", "sync-batch"], 7, 48)
    # durability across clean restarts, later histories with merges
    n = 10 if ctx.quick else 150
    for i in range(n):
        rng = rng_for(ctx.seed, "C04h", i)
        cfg = engine.rand_cfg(rng, io=(1 if i % 5 == 4 else 0), fs=rng.choice([4096, 20000, 65536]))
        g = engine.Gen(rng, cfg, nkeys=6, weights={"batch": 30, "put": 10, "reopen": 6, "merge": 3}, max_val=30000)
        ops = g.history(50 if ctx.quick else 120)
        engine_history_check(res, ctx, "batch history %d" % i, ops)
    return "crash images at every I/O event of batch commits (batches of 0..20 ops, sizes up to several files): recovered state is the state " \
           "before or after the whole batch composed with a prefix; plus batch-heavy histories with merges and restarts against the reference map"


def check_C13(res, ctx):
    from . import crashcheck
    n = 24 if ctx.quick else 3000

    def job(i):
        rng = rng_for(ctx.seed, "C13", i)
        sync = [0, 1, 2, 2][i % 4]
        # memory-mapped runs read 512 MiB of zero pages at every restart: fewer of them in the thorough tier
        io = 1 if (i % 6 == 5 if ctx.quick else i % 20 == 5) else 0
        cfg = {"fs": rng.choice([4096, 20000, 65536]), "sync": sync, "bps": rng.choice([1, 100, 4096, 1 << 20]) if sync == 2 else 0,
               "idx": rng.choice([1, 2, 3]), "io": io, "shards": 16}
        g = engine.Gen(rng, cfg, nkeys=5, weights={"reopen": 2, "merge": 1, "keys": 0, "fold": 0, "dump": 0, "stat": 0, "getabsent": 0,
                                                   "emptykey": 0, "get": 1, "sync": 5, "batch": 12}, max_val=rng.choice([200, 5000, 40000]))
        ops = [o for o in g.history(30 if (ctx.quick or io == 1) else rng.choice([60, 100, 160])) if o.split()[0] not in ("dump", "stat", "files")]
        # only the write/sync event log is needed here: no crash images at all (from_op beyond the last op) - a merge adoption
        # over hundreds of tiny files has hundreds of crash points, each image a copy of the directory and several recoveries
        recs, err, rc = crashcheck.run_crash(ctx, ops, mode="points", cuts="none", dumpfiles=False, from_op=10 ** 9, timeout=(2400 if io == 1 else 900))
        return i, sync, cfg, ops, recs, err, rc
    for i, sync, cfg, ops, recs, err, rc in core.parallel_map(job, list(range(n)), workers=8):
        if rc != 0:
            res.violation("C13 run %d died: %s" % (i, err[-300:]), {"ops": ops})
            continue
        problems = crashcheck.sync_policy_check(res, "run %d" % i, ops, recs)
        res.case("%d|%s" % (i, len(recs)), True)
        res.count("strategy%d" % sync)
        res.count("io%d" % cfg["io"])
        res.count("sync_events", sum(1 for r in recs if r["kind"] == "event" and r["ev"] == "sync"))
        if problems:
            res.violation("run %d (%s): %s" % (i, cfg, problems[0]), {"ops": ops, "problems": problems[:5], "cfg": cfg})
        if i < 2:
            res.sample({"cfg": cfg, "ops": ops[:10], "events": [(r["ev"], r["file"], r["n"]) for r in recs if r["kind"] == "event"][:12]})
    # Threshold boundary: sums of record sizes that land EXACTLY on BytesPerSync ("fewer than BytesPerSync unflushed")
    for j, (bps, seq) in enumerate([(96, ["put 6b p1:36", "put 6b p2:36", "put 6b p3:36", "put 6b p4:36", "put 6b p5:35", "put 6b p6:37"]),
                                    (48, ["put 6b p1:36", "put 6c p2:36", "del 6b"]),
                                    (60, ["put 6b p1:36", "del 6b", "put 6b p2:36", "del 6b"]),
                                    (12, ["put 6b p1:36", "del 6b", "put 6b -", "del 6b"])]):
        for io in (0, 1):
            ops = ["open d 65536 2 %d %d %d 4" % (bps, 1 + j % 3, io)] + seq + ["close"]
            recs, err, rc = crashcheck.run_crash(ctx, ops, mode="points", cuts="none", dumpfiles=False, from_op=10 ** 9)
            res.evaluations += 1
            res.count("threshold_boundary_runs")
            res.distinct.add("boundary%d/%d" % (j, io))
            if rc != 0:
                res.violation("C13 boundary run died: %s" % err[-300:], {"ops": ops})
                continue
            problems = crashcheck.sync_policy_check(res, "boundary %d" % j, ops, recs)
            if problems:
                res.violation("Threshold(%d), record sizes summing exactly to BytesPerSync: %s" % (bps, problems[0]), {"ops": ops, "problems": problems[:5]})
    return "operation sequences under each SyncStrategy / BytesPerSync / batch Sync option / I/O type; the per-file write/sync event log is " \
           "inspected at the return of every public call: Always => nothing unflushed; Threshold => < BytesPerSync record bytes unflushed; " \
           "Sync batch => nothing unflushed at Commit; Sync()/Close() => nothing unflushed; a file is flushed before a new data file is created"


def exact_check(res, ctx, name, ops, exp, nontrivial=True):
    """run ops on the real engine, compare with expected outputs (None = don't care) and with the model"""
    base = ctx.scratch.fresh()
    try:
        outs = run_impl(ops, base)
    finally:
        ctx.scratch.drop(base)
    res.case("\n".join(outs), nontrivial)
    res.count("ops", len(ops))
    for i, (op, o, e) in enumerate(zip(ops, outs, exp)):
        if e is not None and o != e:
            res.violation("%s: `%s` -> %s, expected %s" % (name, op, o[:200], e[:200]), {"ops": ops[:i + 1], "got": o, "expected": e})
            return False
        if o.startswith(("panic:", "died", "dead")):
            res.violation("%s: `%s` -> %s" % (name, op, o), {"ops": ops[:i + 1]})
            return False
    d = diff_model(res, ctx, ops, outs, name)
    if d is not None:
        i, a, b = d
        res.violation("correspondence broke on %s at op %d `%s`: code=%s model=%s" % (name, i, ops[i], a[:200], b[:200]),
                      {"ops": ops[:i + 1], "code": a, "model": b, "correspondence": "line protocol"}, no_input=True)
        return False
    return True


def check_C10(res, ctx):
    from . import itercheck
    n = 120 if ctx.quick else 3000
    for i in range(n):
        rng = rng_for(ctx.seed, "C10ix", i)
        typ = 1 + i % 3
        shards = [1, 2, 3, 16, 1024][(i // 3) % 5]
        big = i % 20 == 19           # every 20th run: hundreds of keys, full walks
        ops, exp = itercheck.index_level(rng, typ, [1, 2][(i // 20) % 2] if big else shards, 40 if ctx.quick else 80, nkeys=(400 if big else None))
        if big:
            shards = 0
            res.count("large_key_sets")
        res.count("index_type%d" % typ)
        res.count("shards%d" % shards)
        exact_check(res, ctx, "index-level iterator run %d (type %d, %d shards)" % (i, typ, shards), ops, exp)
        if i == 0:
            res.sample({"index_level_ops": ops[:20]})
    n = 30 if ctx.quick else 600
    for i in range(n):
        rng = rng_for(ctx.seed, "C10db", i)
        cfg = engine.rand_cfg(rng, io=0, fs=rng.choice([4096, 65536]))
        cfg["idx"] = 1 + i % 3
        cfg["shards"] = [1, 2, 3, 16, 1024][(i // 3) % 5]
        ops, exp = itercheck.db_level(rng, engine.open_line("d", cfg), 40 if ctx.quick else 80)
        res.count("db_level")
        res.count("db_level:idx%d" % cfg["idx"])
        res.count("db_level:shards%d" % cfg["shards"])
        exact_check(res, ctx, "DB iterator run %d (index type %d, %d shards)" % (i, cfg["idx"], cfg["shards"]), ops, exp)
        if i == 0:
            res.sample({"db_level_ops": ops[:20]})
    # ListKeys / Fold visit the same snapshot: covered by the reference oracle of the C01 histories; one here
    rng = rng_for(ctx.seed, "C10lk")
    g = engine.Gen(rng, engine.rand_cfg(rng, io=0), nkeys=30, weights={"keys": 10, "fold": 10, "reopen": 0})
    engine_history_check(res, ctx, "ListKeys/Fold history", g.history(100))
    for k, v in sorted(itercheck.STATS.items()):
        res.count(k, v)
    return "index level: ShardedIndex x {btree, skiplist, map} x requested shards {1,2,3,16,1024}, random key sets with shared prefixes, two " \
           "iterators per run, ARBITRARY Rewind/Seek/Next sequences (Seek targets ahead of the cursor, behind it, on an exhausted iterator, " \
           "several Seeks in a row), writes after creation; DB level: the same x index type x shards {1,2,3,16,1024}, prefix and direction, " \
           "values by captured position; oracle: abstract cursor over the sorted snapshot whose Seek never moves backwards"


def check_C05(res, ctx):
    n = 30 if ctx.quick else 500
    for i in range(n):
        rng = rng_for(ctx.seed, "C05", i)
        cfg = engine.rand_cfg(rng, io=(1 if i % 7 == 6 else 0), fs=rng.choice([4096, 4096, 20000, 65536]))
        coll = (i % 3 == 1)     # every third history stages keys with EQUAL xxhash64 (one bucket of the staging index, one index shard)
        g = engine.Gen(rng, cfg, nkeys=(1 if coll else rng.choice([3, 6])), weights={"batch": 40, "put": 25, "del": 6, "get": 4, "reopen": 1, "merge": 1,
                                                                    "keys": 0, "fold": 0, "stat": 0}, max_val=rng.choice([600, 3000, 30000]),
                       collisions=(rng.choice([1, 2]) if coll else 0))
        ops = g.history(40 if ctx.quick else 80)
        res.count("fs%d" % cfg["fs"])
        if coll:
            res.count("histories_with_colliding_keys")
        engine_history_check(res, ctx, "batch history %d" % i, ops)
        if i < 1:
            res.sample({"ops_head": ops[:25]})
    return "batch-heavy histories (0..20 staged ops per batch, repeated put/delete/put on one key, reads of staged, deleted and base values, " \
           "base values in rotated files via small DataFileSize, batches that overflow the file mid-way, use after commit, empty commits); " \
           "oracle: layered reference map; the byte-exact model must agree on every result, Stat and file listing"


def check_C06(res, ctx):
    from . import conccheck
    # "writes and deletes that race with the merge are kept with their final live outcome" - also across a process death
    # with a batch open, and across a power failure after the merge (xkv batchvis scenarios D and E)
    conccheck.check_batch_visibility(res, ctx, [(3, 0)] if ctx.quick else [(1, 0), (2, 0), (3, 0)])
    n = 24 if ctx.quick else 400
    for i in range(n):
        rng = rng_for(ctx.seed, "C06", i)
        cfg = engine.rand_cfg(rng, io=(1 if i % 6 == 5 else 0), fs=rng.choice([4096, 4096, 20000, 65536]))
        g = engine.Gen(rng, cfg, nkeys=rng.choice([4, 8]), weights={"merge": 8, "reopen": 8, "batch": 8, "put": 30, "del": 8, "keys": 0, "fold": 0},
                       max_val=rng.choice([1000, 3000, 9000]))
        ops = g.history(60 if ctx.quick else 120)
        # after every successful merge + adopting restart the merge directory must be gone
        out_ops = []
        for op in ops:
            out_ops.append(op)
            if op.startswith("open "):
                out_ops.append("files d-merge")
                out_ops.append("scanstat")
        ok = engine_history_check(res, ctx, "merge history %d" % i, out_ops)
        if i < 1:
            res.sample({"ops_head": out_ops[:25]})
    # a SECOND merge that has nothing left to rewrite: merge, adopting restart, every key deleted, merge again, adopting restart -
    # what the first merge left in the data directory (its hint file in particular) must not bring anything back
    for i in range(4 if ctx.quick else 40):
        rng = rng_for(ctx.seed, "C06e", i)
        cfg = engine.rand_cfg(rng, io=(1 if i % 4 == 3 else 0), fs=rng.choice([4096, 20000]))
        g = engine.Gen(rng, cfg, nkeys=rng.choice([3, 6]), weights={"merge": 0, "reopen": 0, "batch": 10, "keys": 0, "fold": 0, "dump": 0, "stat": 0}, max_val=2500)
        ops = g.history(30)[:-3]
        ops += ["merge", "close", engine.open_line("d", cfg), "dump"] + ["del " + k.hex() for k in g.keys] + ["merge", "close", engine.open_line("d", cfg),
                "files d-merge", "dump", "keys", "stat", "close", engine.open_line("d", cfg), "dump", "close"]
        engine_history_check(res, ctx, "empty second merge %d" % i, ops)
        res.count("empty_second_merge_runs")
    # an UNFINISHED leftover merge directory (a Merge that died right before writing its completion marker: the marker of a
    # complete merge is removed), restart (the leftover is ignored), deletes and overwrites of keys the dead merge had rewritten,
    # a second - successful - Merge, adopting restart: the second Merge must start from an empty merge directory, or the dead
    # merge's output (its hint entries in particular) brings deleted keys back
    for i in range(4 if ctx.quick else 40):
        rng = rng_for(ctx.seed, "C06u", i)
        cfg = engine.rand_cfg(rng, io=(1 if i % 4 == 3 else 0), fs=rng.choice([4096, 20000]))
        g = engine.Gen(rng, cfg, nkeys=rng.choice([4, 6]), weights={"merge": 0, "reopen": 0, "batch": 10, "keys": 0, "fold": 0, "dump": 0, "stat": 0}, max_val=2500)
        ops = g.history(30)[:-3]
        ops += ["merge", "rmfile d-merge 000000000.merge-finished", "close", engine.open_line("d", cfg), "dump"]
        gone = [k for j, k in enumerate(g.keys) if j % 2 == i % 2]
        ops += ["del " + k.hex() for k in gone] + ["put %s p%d:%d" % (g.keys[-1].hex(), 77 + i, 300 + 100 * i)]
        ops += ["merge", "close", engine.open_line("d", cfg), "files d-merge", "dump", "keys", "close", engine.open_line("d", cfg), "dump", "close"]
        engine_history_check(res, ctx, "second merge over an unfinished leftover %d" % i, ops)
        res.count("unfinished_leftover_runs")
    # the SAME key at the SAME (block, offset) of several files: fixed-size records whose period is the per-file record count.  A
    # liveness test in Merge that compares positions without the file id rewrites the stale copies too (seeded C02-r7out3, C01-r8out1)
    for i in range(3 if ctx.quick else 30):
        rng = rng_for(ctx.seed, "C06s", i)
        cfg = engine.rand_cfg(rng, io=(1 if i % 3 == 2 else 0), fs=4096)
        size = rng.choice([900, 1200])
        per = 4096 // (size + 40)
        ops = [engine.open_line("d", cfg)]
        for r in range(rng.choice([3, 5])):
            ops += ["put 73%02x p%d:%d" % (j, 10 * r + j, size) for j in range(per)]
        ops += ["scanstat", "merge", "dump", "close", engine.open_line("d", cfg), "files d-merge", "dump", "stat", "scanstat", "close",
                engine.open_line("d", cfg), "dump", "close"]
        engine_history_check(res, ctx, "same slot in every file %d" % i, ops)
        res.count("same_slot_runs")
    # direct checks on adoption: merge dir gone, no tombstones / sealing records in adopted files
    for i in range(8 if ctx.quick else 100):
        rng = rng_for(ctx.seed, "C06a", i)
        fs = rng.choice([4096, 20000])
        fs2 = rng.choice([fs, fs, 4096, 65536])
        cfg = engine.rand_cfg(rng, io=rng.choice([0, 0, 1]), fs=fs)
        g = engine.Gen(rng, cfg, nkeys=6, weights={"merge": 0, "reopen": 0, "batch": 10, "keys": 0, "fold": 0, "dump": 0, "stat": 0}, max_val=2500)
        ops = g.history(40)[:-3]
        cfg2 = dict(cfg, fs=fs2)
        ops += ["close", engine.open_line("d", cfg2), "active", "merge", "dump", "put 7171 x01", "del 7171", "close", engine.open_line("d", cfg2), "files d-merge", "scanstat", "dump", "close",
                engine.open_line("d", cfg), "dump", "close"]
        base = ctx.scratch.fresh()
        try:
            outs = run_impl(ops, base)
        finally:
            ctx.scratch.drop(base)
        orc = engine.run_oracle(ops, outs)
        res.case("\n".join(outs[-12:]), True)
        j = ops.index("merge")
        merged = outs[j] == "ok"
        res.count("merge_ok" if merged else "merge_refused:" + outs[j])
        if orc.problems:
            res.violation("adoption run %d: %s" % (i, orc.problems[0][1]), {"ops": ops})
            continue
        if merged:
            a = int(outs[j - 1].split()[1])
            fm = outs[ops.index("files d-merge")]
            sc = outs[ops.index("scanstat")]
            if fm != "files absent":
                res.violation("adoption run %d: merge directory still present after the adopting restart: %s" % (i, fm), {"ops": ops})
                continue
            files = sc.split("files=")[1].split(",") if "files=" in sc else []
            for f in files:
                fid, size, recs, fins, nbytes, status = f.split(":")
                if int(fid) <= a and int(fins) != 0:
                    res.violation("adoption run %d: adopted file %s still holds batch sealing records: %s" % (i, fid, sc), {"ops": ops})
        # the content of an abandoned (marker-less) merge directory is garbage that Open ignores and the next Merge
        # removes; its listing (unclosed, possibly mmap-extended files, empty hint file) is not modelled
        d = diff_model(res, ctx, ops, outs, "adoption run %d" % i, skip=(lambda op: op == "files d-merge") if not merged else (lambda op: False))
        if d is not None:
            k, x, y = d
            res.violation("correspondence broke on adoption run %d at `%s`: code=%s model=%s" % (i, ops[k], x[:200], y[:200]),
                          {"ops": ops[:k + 1], "code": x, "model": y, "correspondence": "engine line protocol"}, no_input=True)
    conccheck.check_merge_concurrent(res, ctx, rng_for(ctx.seed, "C06c"), [1, 3] if ctx.quick else [1, 2, 3], 6 if ctx.quick else 60)
    conccheck.check_merge_model(res, ctx, rng_for(ctx.seed, "C06m"), [1, 3] if ctx.quick else [1, 2, 3], 8 if ctx.quick else 80)
    return "histories mixing plain and batch writes, deletes, several merges and restarts, with DataFileSize changed between runs so the merged " \
           "output needs fewer / equal / more files than the input (Merge may refuse with the id-conflict error); dumps after merge, after the " \
           "adopting restart and after a second restart against the reference map; merge directory gone; forced schedules pausing Merge inside " \
           "its scan loop while Puts/Deletes run"


def check_C07(res, ctx):
    crash_family(res, ctx, "C07", ["merge-multi", "merge", "merge-multi"], 6, 120, io_mix=(0, 0, 0, 0, 0, 0, 0, 0, 0, 0, 0, 1), cuts_quick="few", cuts_thorough="few",
                 level2=not ctx.quick, postmerge=True)
    return "every I/O event and every crash point (merge phases, each rename / remove / hint move / marker removal / directory removal of the " \
           "adoption step) of histories with Merge and restarts is a crash image; each image is reopened once and twice and must show exactly the " \
           "mapping acknowledged before the crash; the model recovers the same image bytes and must agree"


def check_C08(res, ctx):
    from . import conccheck
    conccheck.check_kv_schedules(res, ctx, [1, 3] if ctx.quick else [1, 2, 3])
    # a concurrent Merge: writers inside the window right after Merge released the lock, and inside its scan loop
    conccheck.check_merge_concurrent(res, ctx, rng_for(ctx.seed, "C08m"), [3] if ctx.quick else [1, 2, 3], 6 if ctx.quick else 40)
    conccheck.check_merge_model(res, ctx, rng_for(ctx.seed, "C08mm"), [2] if ctx.quick else [1, 2, 3], 6 if ctx.quick else 40)
    # other goroutines while a batch is open: its early flushes must not be observable, no never-committed value may be served
    conccheck.check_batch_visibility(res, ctx, [(1, 0), (3, 0)] if ctx.quick else [(1, 0), (2, 0), (3, 0), (1, 1)])
    # readers of the last acknowledged key against a writer that rotates on almost every Put
    for i in range(3 if ctx.quick else 9):
        rep, err, rc = conccheck.run_race(ctx, 2 if ctx.quick else 15, 12, 1 + i % 3, (i // 3) % 2, ctx.seed, race=False, mode="hot")
        res.evaluations += 1
        res.count("hot_reader_runs")
        if rep is None or rep.get("errors"):
            res.violation("Get of the last acknowledged key while the writer rotates (run %d): %s" % (i, json.dumps(rep)[:300] if rep else err[-300:]),
                          {"cmd": "xkv race <dir> 2 12 %d %d %d hot" % (1 + i % 3, (i // 3) % 2, ctx.seed), "report": rep})
        else:
            res.count("hot_gets", rep["counts"]["get"])
            res.distinct.add("hot%d" % i)
    # free-running clients: live mapping vs restart at quiescence
    for i in range(2 if ctx.quick else 12):
        rep, err, rc = conccheck.run_race(ctx, 3 if ctx.quick else 20, [2, 8, 16][i % 3], 1 + i % 3, 0, ctx.seed * 100 + i, race=False)
        res.evaluations += 1
        res.count("free_running")
        if rep is None or rep.get("stuck") or rep.get("panics") or not rep.get("restart_agrees", False):
            res.violation("free-running clients (run %d): %s" % (i, json.dumps(rep)[:400] if rep else err[-300:]),
                          {"cmd": "xkv race", "report": rep, "stderr": err[-2000:]})
        else:
            res.distinct.add("free%d" % i)
    return "all two-client schedules on one key for {Put,Delete} x {Put,Delete,Get}: client A paused at each schedule point (after the log append / " \
           "after Delete's existence check), client B run meanwhile; observed: whether B got through or blocked on the DB mutex, both results, live " \
           "dump, dump after restart; oracle: live = restart, results explained by a sequential order, no index-update-failed; the interleaving " \
           "observed must be a run of the Lean step relation under the shape computed from the regenerated lockset table; plus free-running clients"


def check_C09(res, ctx):
    from . import conccheck
    conccheck.check_listkeys(res, ctx, [1, 2, 3])
    conccheck.check_kv_schedules(res, ctx, [1])
    conccheck.check_calls_during_merge(res, ctx, [2] if ctx.quick else [1, 2, 3])
    runs = [(1, 0), (2, 0), (3, 0)] if ctx.quick else [(1, 0), (2, 0), (3, 0), (1, 1), (3, 1)]
    secs = 12 if ctx.quick else 120
    results = core.parallel_map(lambda x: conccheck.run_race(ctx, secs, 8, x[0], x[1], ctx.seed, race=True), runs, workers=3)
    # the same detector on "Backup every few ms under readers and a writer", memory-mapped files (remapping on the read path)
    runs = runs + [(1, 1, "backup")]
    results = results + [conccheck.run_race(ctx, 4 if ctx.quick else 30, 8, 1, 1, ctx.seed, race=True, mode="backup")]
    third_party = 0
    for run, (rep, err, rc) in zip(runs, results):
        idx, io = run[0], run[1]
        res.evaluations += 1
        res.count("race_runs")
        name = "race-detector stress (index %d, io %d, 8 goroutines, %ds%s)" % (idx, io, secs, ", backups under load" if len(run) > 2 else "")
        if rep is None:
            res.violation("%s died: %s" % (name, err[-400:]), {"cmd": "xkv-race race", "stderr": err[-3000:]})
            continue
        for k, v in rep.get("counts", {}).items():
            res.count("race_op:" + k, v)
        reports = conccheck.race_reports(err)
        own = [r for r in reports if r["in_xixi"]]
        third_party += len(reports) - len(own)
        if own:
            res.violation("%s: %d data race report(s) involving xixi-kv code, first: %s" % (name, len(own), own[0]["frames"][:4]),
                          {"cmd": "xkv-race race <dir> %d 8 %d %d %d" % (secs, idx, io, ctx.seed), "reports": own[:3]})
        if rep.get("panics"):
            res.violation("%s: recovered panics %s" % (name, rep["panics"]), {"report": rep})
        if rep.get("stuck"):
            res.violation("%s: goroutines stuck (deadlock?)" % name, {"report": {k: v for k, v in rep.items() if k != "stacks"}, "stacks": rep.get("stacks", "")[:3000]})
        if rep.get("errors"):
            res.violation("%s: individually valid operations returned errors %s" % (name, rep["errors"]), {"report": rep})
        if not rep.get("stuck") and rep.get("restart_agrees") is False:
            res.violation("%s: live mapping differs from restart at quiescence" % name, {"report": rep})
        res.distinct.add("race%d%d:%s" % (idx, io, sorted(rep.get("counts", {}).items())))
    res.extra["race_reports_only_in_third_party_code"] = third_party
    res.notes.append("partial by design: the race detector sees only executed schedules; races inside google/btree, huandu/skiplist, mmap-go are counted "
                     "separately and not attributed to the engine")
    return "decide obligations on the regenerated lockset table (lock discipline, no re-acquisition, release at return); forced schedules for ListKeys " \
           "(paused between snapshot and copy) and for racing Put/Delete; -race built stress of 8 goroutines over Put/Get/Delete/ListKeys/Fold/iterators/" \
           "Stat/Sync/batches/Merge per index type with small files: data-race reports, recovered panics, watchdog, unexpected error classes"


RESULT_FREE = ("stat", "files", "active", "pos", "scanstat", "sumdir")


def check_C14(res, ctx):
    n = 10 if ctx.quick else 150
    pairs_per = 3 if ctx.quick else 8
    for i in range(n):
        rng = rng_for(ctx.seed, "C14", i)
        base_cfg = engine.rand_cfg(rng, io=0)
        batch_free = i % 2 == 0
        g = engine.Gen(rng, base_cfg, nkeys=rng.choice([4, 10]),
                       weights={"reopen": 0, "merge": 2, "keys": 4, "fold": 3, "batch": 0 if batch_free else 8}, max_val=rng.choice([800, 40000]))
        body = g.history(60 if ctx.quick else 120)[1:-1]
        # iterators are part of the transcript too
        # snapshot semantics are part of the transcript: overwrite / delete keys behind an open iterator
        live_keys = [k.hex() for k in g.keys[:4]]
        body += ["it.new a - 0", "it.new b - 1"] + ["put %s p%d:%d" % (k, 9000 + j, 33 + j) for j, k in enumerate(live_keys)] + \
                ["del " + live_keys[0]] + ["it.next a", "it.next b"] * 6 + ["it.close a", "it.close b"]
        scrib = ["scribble on"] if i % 3 == 0 else []
        transcripts = []
        for j in range(pairs_per):
            cfg = engine.rand_cfg(rng)
            if j == 0:
                cfg = dict(base_cfg)
            if j == 1:
                cfg = dict(base_cfg, io=1)           # same limits, other back-end: bytes must be identical
            ops = scrib + [engine.open_line("d", cfg)] + body + ["close", "sumdir d", engine.open_line("d", cfg), "dump", "close"]
            bdir = ctx.scratch.fresh()
            try:
                outs = run_impl(ops, bdir)
            finally:
                ctx.scratch.drop(bdir)
            res.case("%d|%s" % (i, json.dumps(cfg, sort_keys=True)), True)
            res.count("cfg:idx%d" % cfg["idx"])
            res.count("cfg:io%d" % cfg["io"])
            res.count("cfg:shards%d" % cfg["shards"])
            t = [(op, o) for op, o in zip(ops, outs) if op.split()[0] not in RESULT_FREE and not op.startswith("open ")]
            sumline = outs[ops.index("sumdir d")]
            transcripts.append((cfg, ops, outs, t, sumline))
            bad = [(op, o) for op, o in t if o.startswith(("panic", "died", "dead"))]
            if bad:
                res.violation("configuration %s: %s -> %s" % (cfg, bad[0][0], bad[0][1]), {"ops": ops})
            d = diff_model(res, ctx, ops, outs, "C14 %d/%d" % (i, j))
            if d is not None:
                k, x, y = d
                res.violation("correspondence broke under configuration %s at `%s`: code=%s model=%s" % (cfg, ops[k], x[:200], y[:200]),
                              {"ops": ops[:k + 1], "code": x, "model": y, "correspondence": "engine line protocol"}, no_input=True)
        c0, ops0, outs0, t0, sum0 = transcripts[0]
        for cfg, ops, outs, t, sm in transcripts[1:]:
            for (opa, oa), (opb, ob) in zip(t0, t):
                if oa != ob:
                    res.violation("same operations, different results: `%s` -> %s under %s but %s under %s" % (opa, oa[:200], c0, ob[:200], cfg),
                                  {"ops_a": ops0, "ops_b": ops, "first_difference": opa})
                    break
        if len(transcripts) > 1 and sum0 != transcripts[1][4]:
            res.violation("standard and memory-mapped I/O stored different bytes for the same operations: %s vs %s" % (sum0[:200], transcripts[1][4][:200]),
                          {"ops_a": ops0, "ops_b": transcripts[1][1]})
        if i < 1:
            res.sample({"body_head": body[:15], "configs": [t[0] for t in transcripts]})
    # cursor scripts (ARBITRARY Seek / Rewind / Next sequences: backward Seeks, Seek on an exhausted iterator, several Seeks in
    # a row; prefix / reverse; writes behind the cursors) under every index type x shard count: one transcript
    from . import itercheck
    SHARDS = (1, 2, 3, 16, 1024)

    def same(kind, ops, runs):
        c0, o0, t0 = runs[0]
        for cfg, o2, t in runs[1:]:
            for (op, a, b) in zip(ops, t0, t):
                if a != b:
                    res.violation("same %s cursor calls, different results: `%s` -> %s under %s but %s under %s" % (kind, op, a[:200], c0, b[:200], cfg),
                                  {"ops_a": o0, "ops_b": o2, "first_difference": op})
                    return

    for i in range(6 if ctx.quick else 80):
        rng = rng_for(ctx.seed, "C14it", i)
        ops, exp = itercheck.db_level(rng, "OPEN", 40 if ctx.quick else 120)
        runs = []
        for idx in (1, 2, 3):
            for sh in SHARDS:
                cfg = {"fs": 65536, "sync": 0, "bps": 0, "idx": idx, "io": 0, "shards": sh}
                o2 = [engine.open_line("d", cfg)] + ops[1:]
                bdir = ctx.scratch.fresh()
                try:
                    outs = run_impl(o2, bdir)
                finally:
                    ctx.scratch.drop(bdir)
                res.case("it%d|%d|%d" % (i, idx, sh), True)
                res.count("cursor_scripts:idx%d" % idx)
                res.count("cursor_scripts:shards%d" % sh)
                runs.append((cfg, o2, outs))
                if idx == 1 and sh == 1:
                    # ... and that one transcript is the abstract cursor's
                    for op, o, e in zip(o2, outs, exp):
                        if e is not None and o != e:
                            res.violation("DB cursor script %d: `%s` -> %s, expected %s" % (i, op, o[:200], e[:200]), {"ops": o2, "got": o, "expected": e})
                            break
        same("DB-level", ops, runs)
    for i in range(6 if ctx.quick else 80):
        rng = rng_for(ctx.seed, "C14ix", i)
        # the last script has a LARGE key set (hundreds of keys per shard) with full walks
        big = i == (5 if ctx.quick else 79) or (not ctx.quick and i % 16 == 15)
        ops, exp = itercheck.index_level(rng, 1, 1, 40 if ctx.quick else 120, nkeys=(400 if big else None))
        if big:
            res.count("index_cursor_scripts:large_key_sets")
        runs = []
        for typ in (1, 2, 3):
            for sh in SHARDS:
                o2 = ["ix.new %d %d" % (typ, sh)] + ops[1:]
                bdir = ctx.scratch.fresh()
                try:
                    outs = run_impl(o2, bdir)
                finally:
                    ctx.scratch.drop(bdir)
                res.case("ix%d|%d|%d" % (i, typ, sh), True)
                res.count("index_cursor_scripts:type%d" % typ)
                res.count("index_cursor_scripts:shards%d" % sh)
                runs.append(({"index_type": typ, "shards": sh}, o2, outs))
                if typ == 1 and sh == 1:
                    for op, o, e in zip(o2, outs, exp):
                        if e is not None and o != e:
                            res.violation("index cursor script %d: `%s` -> %s, expected %s" % (i, op, o[:200], e[:200]), {"ops": o2, "got": o, "expected": e})
                            break
        same("index-level", ops, runs)
    for k, v in sorted(itercheck.STATS.items()):
        res.count("cursor_scripts:" + k, v)
    # shard count normalisation
    vals = [1, 2, 3, 4, 5, 15, 16, 17, 31, 33, 511, 512, 513, 1023, 1024, 1025, 4096, 65535, 1 << 20, 1 << 31]
    exact_check(res, ctx, "nextPowerOfTwo", ["ix.npot %d" % v for v in vals],
                [str(min(1024, 1 << (v - 1).bit_length())) for v in vals])
    return "one operation sequence executed under several configurations (index type x shard count x I/O type x DataFileSize x SyncStrategy): " \
           "the transcripts of all result-bearing calls (values, errors, key order, iterator steps, recovered dump) must be identical; with equal " \
           "limits the data-file bytes of standard and mmap I/O must be identical; every third run reuses and scribbles the caller's buffers; " \
           "cursor scripts with ARBITRARY Rewind/Next/Seek sequences (backward Seeks, Seek on an exhausted iterator, Seeks in a row) at DB " \
           "level and index level under index type {1,2,3} x shards {1,2,3,16,1024}: one transcript, equal to the abstract cursor's"


def check_C15(res, ctx):
    n = 20 if ctx.quick else 300
    for i in range(n):
        rng = rng_for(ctx.seed, "C15", i)
        cfg = engine.rand_cfg(rng, io=(1 if i % 7 == 6 else 0))
        cfg["idx"] = 1 + i % 3
        w = {"reopen": 1, "merge": 1, "batch": 25 if i % 2 else 6, "put": 30, "get": 15}
        # every fourth run has values of one to three blocks (multi-chunk records are reassembled in a pooled buffer)
        g = engine.Gen(rng, cfg, nkeys=rng.choice([3, 6]), weights=w, max_val=(3 * engine.BS if i % 4 == 3 else rng.choice([200, 3000])))
        ops = g.history(60 if ctx.quick else 120)
        res.count("runs_with_multi_block_values" if i % 4 == 3 else "runs_with_small_values")
        # sprinkle checks that slices returned earlier are unchanged
        out_ops = ["scribble on"]
        for k, op in enumerate(ops):
            out_ops.append(op)
            if k % 9 == 8 and not any(x.startswith("bnew") for x in ops[max(0, k - 30):k + 1] if False):
                out_ops.append("checkret")
        res.count("index_type%d" % cfg["idx"])
        engine_history_check(res, ctx, "scribble run %d" % i, out_ops)
        if i < 1:
            res.sample({"ops_head": out_ops[:20]})
    res.notes.append("partial: absence of aliasing in Go's heap is established by this differential run (value-semantics model vs real engine with "
                     "every caller buffer reused and overwritten), not by proof")
    return "C01/C05-style histories in scribble mode: one key buffer and one value buffer are reused for every call and overwritten (0xEE/0xDD) right " \
           "after each return; slices returned by Get / Batch.Get are kept, compared later and then overwritten (0xCC); all three index types; " \
           "oracle: reference map + unchanged returned slices; the value-semantics model must agree"


def check_C16(res, ctx):
    import subprocess
    import time as _t
    base = ctx.scratch.fresh()
    try:
        # (a) racing openers on a fresh directory
        rounds = 10 if ctx.quick else 150
        for r in range(rounds):
            rng = rng_for(ctx.seed, "C16", r)
            k = rng.choice([2, 3, 6])
            d = "race%d" % r
            at = _t.time_ns() + 60_000_000
            procs = [subprocess.Popen([core.XKV, "lock", "hold", base, d, str(at), str(rng.choice([5, 20, 40]))], stdout=subprocess.PIPE, text=True)
                     for _ in range(k)]
            outs = [p.communicate(timeout=60)[0].strip() for p in procs]
            res.evaluations += 1
            res.count("open_races")
            res.distinct.add("race:%s" % sorted(o.split()[0] for o in outs))
            held = []
            for o in outs:
                f = o.split()
                if f[0] == "ok":
                    held.append((int(f[2]), int(f[3])))       # [open returned, close started]
                    if f[5] != "ok":
                        res.violation("Close failed in a racing opener: %s" % o, {"cmd": "xkv lock hold", "outputs": outs})
                elif f[0] != "err:inuse":
                    res.violation("racing Open returned %s (expected success or directory-in-use)" % f[0], {"outputs": outs})
            held.sort()
            for (a1, b1), (a2, b2) in zip(held, held[1:]):
                if a2 < b1:
                    res.violation("two processes had the same directory open at the same time: %s" % outs, {"outputs": outs})
            if not held:
                res.violation("no process could open a fresh directory: %s" % outs, {"outputs": outs})
        # (a2) the lock is held until Close has finished with the files: at every I/O event of Close another process tries to open
        for io in (0, 1):
            r = subprocess.run([core.XKV, "lock", "duringclose", base, "dc%d" % io, str(io)], capture_output=True, text=True, timeout=120)
            line = r.stdout.strip()
            res.evaluations += 1
            res.count("open_during_close_runs")
            res.distinct.add("duringclose:" + line)
            m = re.match(r"close=(\S+) during=(\S*) after=(\S+)", line)
            if not m:
                res.violation("open-during-close scenario (io=%d) gave no result: %s %s" % (io, line[:200], r.stderr[-300:]), {"cmd": "xkv lock duringclose <base> dc %d" % io})
                continue
            attempts = [x for x in m.group(2).split(",") if x]
            res.count("open_attempts_during_close", len(attempts))
            got_in = [x for x in attempts if not x.endswith("err:inuse")]
            if got_in:
                res.violation("another process opened the directory while Close was still working on its files (io=%d): %s" % (io, got_in),
                              {"cmd": "xkv lock duringclose <base> dc %d" % io, "output": line})
            elif not attempts:
                res.violation("open-during-close scenario (io=%d) saw no I/O event during Close (hooks drifted?)" % io, {"output": line}, no_input=True)
            elif m.group(1) != "ok" or m.group(3) != "ok":
                res.violation("open-during-close scenario (io=%d): close=%s, Open after Close=%s" % (io, m.group(1), m.group(3)), {"output": line})
        # (b) a rejected Open does not touch the directory (pending finished merge present)
        prep = ["open h 4096 0 0 3 0 16"] + ["put %02x%02x p%d:900" % (97 + j % 5, 97 + j % 5, j) for j in range(14)] + ["merge"]
        holder = subprocess.Popen([core.XKV, "run", base], stdin=subprocess.PIPE, stdout=subprocess.PIPE, text=True)
        for op in prep:
            holder.stdin.write(op + "\n")
            holder.stdin.flush()
            holder.stdout.readline()
        h0 = subprocess.run([core.XKV, "lock", "hash", base, "h"], capture_output=True, text=True).stdout + \
            subprocess.run([core.XKV, "lock", "hash", base, "h-merge"], capture_output=True, text=True).stdout
        cont = run_impl(["open h 4096 0 0 3 0 16", "open h 65536 0 0 1 1 4"], base)
        h1 = subprocess.run([core.XKV, "lock", "hash", base, "h"], capture_output=True, text=True).stdout + \
            subprocess.run([core.XKV, "lock", "hash", base, "h-merge"], capture_output=True, text=True).stdout
        res.evaluations += 1
        res.count("rejected_open_with_pending_merge")
        if cont[0] != "err:inuse" or cont[1] != "err:inuse":
            res.violation("Open of a directory held by another process returned %s" % cont, {"holder_ops": prep, "contender": cont})
        if h0 != h1:
            res.violation("a rejected Open changed the directory contents (pending merge adopted under a foreign lock?)", {"holder_ops": prep})
        holder.stdin.write("close\n")
        holder.stdin.flush()
        holder.stdout.readline()
        holder.stdin.close()
        holder.wait(timeout=30)
        after = run_impl(["open h 4096 0 0 3 0 16", "dump", "close"], base)
        if after[0] != "ok":
            res.violation("directory cannot be opened after the holder closed it: %s" % after[0], {"holder_ops": prep})
        # (c) failed Opens release the lock: same process and another process
        stages = [
            ("bad-options", [], "open f 0 0 0 3 0 16"),
            ("corrupt-data", ["corrupt f 000000000.data 9 255"], "open f 65536 0 0 3 0 16"),
            ("threshold-without-bytes", [], "open f 65536 2 0 3 0 16"),
        ]
        for name, damage, bad_open in stages:
            ops = ["open f 65536 0 0 3 0 16", "put 6161 x01", "close"] + damage + [bad_open] + [d for d in damage] + ["open f 65536 0 0 3 0 16", "get 6161", "close"]
            outs = run_impl(ops, base)
            res.evaluations += 1
            res.count("failed_open_stage:" + name)
            res.distinct.add("stage:" + name + outs[3 + len(damage)])
            j = 3 + len(damage)
            if outs[j] == "ok":
                res.violation("Open expected to fail (%s) succeeded" % name, {"ops": ops})
            if outs[-3] != "ok" or outs[-2] != "v1:a505df1b":
                res.violation("after an Open that failed (%s: %s) the same process cannot open the directory: %s" % (name, outs[j], outs[-3:]), {"ops": ops})
            other = run_impl(["open f 65536 0 0 3 0 16", "close"], base)
            if other[0] != "ok":
                res.violation("after an Open that failed (%s) another process cannot open the directory: %s" % (name, other[0]), {"ops": ops})
            run_impl(["rmdir f"], base)
    finally:
        ctx.scratch.drop(base)
    # corpus
    res.notes.append("partial: cross-process exclusion rests on flock(2), which the model abstracts as one bit per directory")
    return "2..6 child processes opening one fresh directory at the same instant (hold intervals must not overlap, losers get directory-in-use); " \
           "a contender against a directory held by another process with a finished merge pending (tree hash before/after); Opens failing at " \
           "different stages followed by Opens from the same and from another process"


def c17_oracle(ops, outs, fs_of):
    """Stat vs recomputation by scanning with the package's own reader; file size limit"""
    probs = []
    last_stat = None
    for i, (op, out) in enumerate(zip(ops, outs)):
        if op == "stat":
            last_stat = (i, out)
        if op == "scanstat" and last_stat and last_stat[0] == i - 1 and out.startswith("scan "):
            try:
                st = dict(x.split("=") for x in last_stat[1].split()[1:])
                keys = int(out.split("keys=")[1].split()[0])
                live = int(out.split("live=")[1].split()[0])
                files = [f.split(":") for f in out.split("files=")[1].split(",") if f]
            except (ValueError, IndexError):
                probs.append((i, "unparsable stat/scan: %s / %s" % (last_stat[1], out)))
                continue
            D, R = int(st["disk"]), int(st["reclaim"])
            if int(st["keys"]) != keys:
                probs.append((i, "Stat.KeyNum %s but the files hold %d live keys" % (st["keys"], keys)))
            if int(st["files"]) != len(files):
                probs.append((i, "Stat.DataFileNum %s but %d data files are open" % (st["files"], len(files))))
            if not (0 <= R <= D):
                probs.append((i, "ReclaimableSize %d, DiskSize %d violate 0 <= reclaimable <= disk" % (R, D)))
            if D - R != live:
                probs.append((i, "DiskSize - ReclaimableSize = %d but the live records occupy %d bytes" % (D - R, live)))
            fs = fs_of(i)
            for fid, size, recs, fins, nbytes, status in files:
                if int(size) > fs and int(recs) - int(fins) > 1:
                    probs.append((i, "data file %s has %s bytes (limit %d) and holds %s records" % (fid, size, fs, recs)))
                if status != "eof":
                    probs.append((i, "scan of data file %s ended with %s" % (fid, status)))
    return probs


def check_C17(res, ctx):
    n = 24 if ctx.quick else 400
    for i in range(n):
        rng = rng_for(ctx.seed, "C17", i)
        cfg = engine.rand_cfg(rng, io=(1 if i % 8 == 7 else 0), fs=rng.choice([4096, 4096, 20000, 65536]))
        g = engine.Gen(rng, cfg, nkeys=rng.choice([3, 6]), weights={"batch": 18, "put": 30, "del": 10, "merge": 3, "reopen": 4, "get": 3, "keys": 0,
                                                                    "fold": 0, "dump": 1, "stat": 0}, max_val=rng.choice([500, 3000, 12000]))
        raw = g.history(50 if ctx.quick else 100)
        ops = []
        fs_at = []
        cur = cfg["fs"]
        inbatch = False
        for op in raw:
            f = op.split()
            if f[0] == "open":
                cur = int(f[2])
            ops.append(op)
            fs_at.append(cur)
            if f[0] == "bnew":
                inbatch = True
            if f[0] == "bdrop":
                inbatch = False
            if f[0] in ("put", "del", "bdrop", "merge", "open") and not inbatch:
                ops += ["stat", "scanstat"]
                fs_at += [cur, cur]
        base = ctx.scratch.fresh()
        try:
            outs = run_impl(ops, base)
        finally:
            ctx.scratch.drop(base)
        orc = engine.run_oracle(ops, outs)
        res.case("\n".join(outs), True)
        res.count("stat_checks", ops.count("scanstat"))
        probs = [(j, m) for j, m in orc.problems] + c17_oracle(ops, outs, lambda j: max(fs_at[max(0, j - 400):j + 1]))
        if probs:
            j, msg = sorted(probs)[0]
            res.violation("accounting run %d after `%s`: %s" % (i, ops[max(0, j - 2)], msg), {"ops": ops[:j + 1], "problem": msg})
            continue
        d = diff_model(res, ctx, ops, outs, "C17 %d" % i)
        if d is not None:
            k, x, y = d
            res.violation("correspondence broke on accounting run %d at `%s`: code=%s model=%s" % (i, ops[k], x[:200], y[:200]),
                          {"ops": ops[:k + 1], "code": x, "model": y, "correspondence": "engine line protocol (Stat)"}, no_input=True)
        if i < 1:
            res.sample({"ops_head": ops[:20]})
    # rotation threshold sweep: records sized around the remaining space
    for i in range(6 if ctx.quick else 60):
        rng = rng_for(ctx.seed, "C17t", i)
        fs = rng.choice([4096, 65536])
        ops = ["open d %d 0 0 3 0 16" % fs]
        size = 0
        for j in range(30):
            remaining = fs - size
            n = max(0, remaining - engine.est_size(2, 0) + rng.randrange(-40, 41))
            ops += ["put 6b%02x p%d:%d" % (j % 3, j, n), "stat", "scanstat"]
            if size + engine.est_size(2, n) > fs:
                size = 0
            size = engine.write_geom(size, engine.payload_len(2, n))[4]
        ops.append("close")
        base = ctx.scratch.fresh()
        try:
            outs = run_impl(ops, base)
        finally:
            ctx.scratch.drop(base)
        res.case("t%d" % i + outs[-2], True)
        res.count("threshold_sweeps")
        probs = c17_oracle(ops, outs, lambda j: fs)
        if probs:
            res.violation("rotation-threshold sweep %d: %s" % (i, probs[0][1]), {"ops": ops[:probs[0][0] + 1]})
    # one batch that stages a LARGE value, fills the file, stages that key AGAIN with the Put that no longer fits (capacity flush +
    # rotation: the key is staged anew, the batch's size estimate starts over) and goes on with small records up to Commit
    for i in range(6 if ctx.quick else 80):
        rng = rng_for(ctx.seed, "C17b", i)
        fs = rng.choice([16384, 65536])
        ops = ["open d %d 0 0 %d 0 4" % (fs, 1 + i % 3), "bnew 0 %d" % (7001009 + 1009 * i)]
        r1 = rng.randrange(fs // 10, fs // 2)
        ops.append("bput 686f74 p1:%d" % r1)
        staged, j = r1, 0
        goal = rng.randrange(7 * fs // 10, fs)
        while staged < goal:
            n = rng.randrange(fs // 40, fs // 10)
            ops.append("bput 66%02x p%d:%d" % (j, 2 + j, n))
            staged += n
            j += 1
        r2 = r1 + rng.randrange(fs // 20, 2 * fs // 5)
        ops.append(rng.choice(["bput 686f74 p99:%d" % r2] * 3 + ["bdel 686f74"]))
        for k in range(rng.randrange(20, 60)):
            ops.append("bput 67%02x p%d:%d" % (k, 100 + k, rng.randrange(fs // 64, fs // 20)))
        ops += ["bcommit", "stat", "scanstat", "get 686f74", "close", "open d %d 0 0 %d 0 4" % (fs, 1 + i % 3), "stat", "scanstat", "close"]
        base = ctx.scratch.fresh()
        try:
            outs = run_impl(ops, base)
        finally:
            ctx.scratch.drop(base)
        res.case("b%d" % i + outs[-2], True)
        res.count("batch_restage_sweeps")
        probs = [(j, m) for j, m in engine.run_oracle(ops, outs).problems] + c17_oracle(ops, outs, lambda j: fs)
        if probs:
            res.violation("batch re-staging a key at the capacity flush, run %d: %s" % (i, sorted(probs)[0][1]), {"ops": ops, "problem": sorted(probs)[0][1]})
            continue
        d = diff_model(res, ctx, ops, outs, "C17 restage %d" % i)
        if d is not None:
            k, x, y = d
            res.violation("correspondence broke on batch re-staging run %d at `%s`: code=%s model=%s" % (i, ops[k], x[:200], y[:200]),
                          {"ops": ops[:k + 1], "code": x, "model": y, "correspondence": "engine line protocol (Stat)"}, no_input=True)
    return "histories mixing Put, overwrites, Delete, batches (incl. overwrites inside batches), rotations, merges and restarts; after every step " \
           "Stat is compared with a recomputation that scans all data files with the package's own reader: KeyNum, DataFileNum, 0 <= Reclaimable <= " \
           "DiskSize, DiskSize - Reclaimable = bytes of live records; every data file is within DataFileSize or holds a single record (+ sealing " \
           "record); record sizes swept within +-40 bytes of the rotation threshold"


def check_C18(res, ctx):
    n = 14 if ctx.quick else 300
    for i in range(n):
        rng = rng_for(ctx.seed, "C18", i)
        io = 1 if i % 5 == 4 else 0
        fs = rng.choice([4096, 20000, 65536])
        cfg = engine.rand_cfg(rng, io=io, fs=fs)
        # keys with high bytes / varint-like bytes / long keys
        g = engine.Gen(rng, cfg, nkeys=rng.choice([5, 12]), weights={"merge": 0, "reopen": 0, "batch": 10, "keys": 0, "fold": 0, "dump": 0, "stat": 0},
                       max_val=rng.choice([300, 3000]))
        g.keys = sorted(set(g.keys + [bytes([0x80, 0x01]), bytes([0xff] * 9 + [0x01]), b"\x00", bytes(range(200, 255)) * 20]))
        ops = g.history(50)[:-3]
        if i % 2 == 1:
            # an earlier merge of the same directory has already been adopted (its hint file sits in the data directory)
            ops += ["merge", "close", engine.open_line("d", cfg)]
            if i % 4 == 3:
                # everything is deleted before the second merge: it rewrites no record at all
                ops += ["del " + k.hex() for k in g.keys]
                if rng.random() < 0.5:
                    ops.append("put %s x01" % g.keys[0].hex())
                res.count("second_merge_rewrites_nothing")
            else:
                for _ in range(12):
                    g.ops = []
                    g.step()
                    ops += [o for o in g.ops if o.split()[0] not in ("merge", "close", "open", "dump", "stat", "files")]
            res.count("second_merge_of_directory")
        ops += ["merge", "dump", "files d-merge", "close"]
        base = ctx.scratch.fresh()
        try:
            outs = run_impl(ops, base)
            orders1 = dict(core.LAST_MERGE_ORDERS)
            if outs[-4] != "ok":
                res.count("merge_refused")
                continue
            listing = outs[-2]
            mfiles = [x.split(":")[0] for x in listing[6:].split(",") if x.endswith and ".data" in x]
            # decode the hint with the package's own reader, scan the rewritten files, read every hinted position
            ops2 = ["files d-merge", "df.open d-merge 0 0 hint", "df.scanhint", "df.close"]
            for mf in mfiles:
                ops2 += ["df.open d-merge %d 0" % int(mf[:9]), "df.scan", "df.close"]
            outs2 = run_impl(ops2, base)
            hint = outs2[2].split()[1:-1]
            hint_end = outs2[2].split()[-1]
            recs = []
            k = 4
            for mf in mfiles:
                sc = outs2[k + 1].split()[1:]
                recs += [x for x in sc[:-1]]
                if sc[-1] != "eof":
                    res.violation("scan of rewritten file %s ended with %s" % (mf, sc[-1]), {"ops": ops + ops2})
                k += 3
            res.case("\n".join(outs2), len(hint) >= 2)
            res.count("hint_entries", len(hint))
            res.count("merged_files", len(mfiles))
            res.count("io%d" % io)
            bad = None
            if hint_end != "eof":
                bad = "hint file scan ended with %s" % hint_end
            hk = [h.split("@")[0] for h in hint]
            rk = [r.split("/")[1] for r in recs]
            if not bad and sorted(hk) != sorted(rk):
                bad = "hinted keys %s differ from the keys stored in the merged files %s" % (hk[:6], rk[:6])
            if not bad and len(set(hk)) != len(hk):
                bad = "a key is hinted twice"
            if not bad:
                pos_of = {r.split("/")[1]: r.split("@")[1] for r in recs}
                for h in hint:
                    key, pos = h.split("@")
                    if pos_of.get(key) != pos:
                        bad = "hint entry for key %s names position %s but the record is at %s" % (key, pos, pos_of.get(key))
                        break
                for r in recs:
                    if r.split("/")[0] != "0" or r.split("/")[3].split("@")[0] != "0":
                        bad = "merged file holds a record that is not a plain normal record: %s" % r[:80]
                        break
            if bad:
                res.violation("merge %d: %s" % (i, bad), {"ops": ops + ops2})
                continue
            # hint-path open vs scan-path open of the same files
            keys_hex = sorted(set(hk))
            probe = ["pos " + kx for kx in keys_hex[:40] if kx != "-"]
            ops3 = [engine.open_line("d", cfg)] + ["dump", "stat"] + probe + ["close", engine.open_line("d", cfg), "dump", "stat"] + probe + ["close"]
            ops3 += ["df.open d 0 0 hint", "df.scanhint", "df.close"]
            outs3 = run_impl(ops3, base)
            adopted_hint = outs3[-2].split()[1:-1]
            if adopted_hint != hint:
                res.violation("merge %d: the hint file in the data directory after adoption (%d entries) is not the hint the merge wrote (%d entries)" % (
                    i, len(adopted_hint), len(hint)), {"ops": ops + ops2 + ops3})
                continue
            h = len(probe) + 3
            first, second = outs3[1:h], outs3[h + 2:2 * h + 1]
            if outs3[0] != "ok" or outs3[h + 1] != "ok":
                res.violation("merge %d: open after merge failed: %s / %s" % (i, outs3[0], outs3[h + 1]), {"ops": ops + ops2 + ops3})
                continue
            if first[0] != second[0] or first[2:] != second[2:] or first[1].split()[1] != second[1].split()[1]:
                diff = [(a, b) for a, b in zip(first, second) if a != b][:2]
                res.violation("merge %d: opening through the hint and opening by scanning the same files give different indexes: %s" % (i, diff),
                              {"ops": ops + ops2 + ops3})
                continue
            if first[0] != outs[-3]:
                res.violation("merge %d: mapping after the adopting restart differs from the mapping before: %s vs %s" % (i, first[0][:200], outs[-3][:200]),
                              {"ops": ops + ops3})
            allops = ops + ops2 + ops3
            allouts = outs + outs2 + outs3
            d = diff_model(res, ctx, allops, allouts, "C18 %d" % i, orders=orders1)
            if d is not None:
                k, x, y = d
                res.violation("correspondence broke on merge %d at `%s`: code=%s model=%s" % (i, allops[k], x[:200], y[:200]),
                              {"ops": allops[:k + 1], "code": x, "model": y, "correspondence": "hint / merged files"}, no_input=True)
            if i < 1:
                res.sample({"hint_entries": hint[:5], "merged_records": recs[:5]})
        finally:
            ctx.scratch.drop(base)
    return "after each successful Merge: the hint file decoded with the package's own reader vs the records scanned from the rewritten files (same " \
           "keys, each once, positions and sizes equal, only plain normal records), then the adopting (hint-path) restart vs the next (scan-path) " \
           "restart: same dump, KeyNum and index positions; keys with bytes >= 0x80, varint-like bytes and multi-kilobyte keys; both I/O types"


def check_C19(res, ctx):
    from . import dtcheck
    n = 30 if ctx.quick else 800
    for i in range(n):
        rng = rng_for(ctx.seed, "C19", i)
        ops = dtcheck.sequence(rng, 60 if ctx.quick else 120)
        exp = dtcheck.expected(ops)
        for op in ops:
            res.count("cmd:" + op.split()[0])
        exact_check(res, ctx, "command sequence %d" % i, ops, exp)
        if i < 1:
            res.sample({"ops_head": ops[:20]})
    return "command sequences over 4-8 equal-length keys mixing strings with TTL classes none/live/expired, hashes, sets, lists and sorted sets, " \
           "deletions, re-creation with another type, empty keys, restarts under other index / I/O types; every reply is compared with an in-memory " \
           "reference of the abstract types and with the Lean model"


def check_C20(res, ctx):
    n = 14 if ctx.quick else 250
    for i in range(n):
        rng = rng_for(ctx.seed, "C20", i)
        io = i % 2
        cfg = engine.rand_cfg(rng, io=io, fs=rng.choice([4096, 20000, 65536]))
        g = engine.Gen(rng, cfg, nkeys=6, weights={"reopen": 2 if io == 0 else 0, "merge": 3, "batch": 8, "keys": 0, "fold": 0}, max_val=rng.choice([400, 5000, 20000]))
        body = g.history(30 if ctx.quick else 60)[:-3]
        # restarts inside keep the I/O type
        body = [(" ".join(o.split()[:6] + [str(io)] + o.split()[7:]) if o.startswith("open ") else o) for o in body]
        ops = list(body)
        seed = 5000
        backups = []
        for b in range(2):
            ops.append("backup b%d" % b)
            backups.append("b%d" % b)
            # keep writing after the backup: small and > 1 page
            for sz in (1, rng.choice([100, 4000]), rng.choice([5000, 20000, 100000])):
                seed += 1
                ops.append("put %s p%d:%d" % (rng.choice(g.keys).hex(), seed, sz))
            ops.append("get %s" % rng.choice(g.keys).hex())
            ops.append("dump")
        ops += ["close", engine.open_line("d", cfg), "dump", "close"]
        for bname in backups:
            rcfg = engine.rand_cfg(rng, io=rng.choice([0, io]))
            ops += ["haslock " + bname, "files " + bname, engine.open_line(bname, rcfg), "dump", "put 7a7a x01", "dump", "close", engine.open_line(bname, rcfg), "dump", "close"]
        ops += [engine.open_line("d", cfg), "dump", "close"]
        base = ctx.scratch.fresh()
        try:
            outs = run_impl(ops, base, timeout=300)
        finally:
            ctx.scratch.drop(base)
        orc = engine.run_oracle(ops, outs)
        res.case("\n".join(outs[-30:]), True)
        res.count("io%d" % io)
        res.count("backups", 2)
        if orc.problems:
            j, msg = orc.problems[0]
            res.violation("backup run %d (io=%d): %s" % (i, io, msg), {"ops": ops[:j + 1], "problem": msg})
            continue
        for op, o in zip(ops, outs):
            if op.startswith("files b") and o.startswith("files "):
                for it in [x for x in o[6:].split(",") if x]:
                    if int(it.rsplit(":", 1)[1]) >= 1 << 28:
                        res.violation("backup run %d: the copy contains a file at its memory-mapped extended size: %s" % (i, it), {"ops": ops})
        lk = [o for op, o in zip(ops, outs) if op.startswith("haslock")]
        if any(x != "lock absent" for x in lk):
            res.violation("backup run %d: the copy carries the source's lock file" % i, {"ops": ops})
        d = diff_model(res, ctx, ops, outs, "C20 %d" % i)
        if d is not None:
            k, x, y = d
            res.violation("correspondence broke on backup run %d at `%s`: code=%s model=%s" % (i, ops[k], x[:200], y[:200]),
                          {"ops": ops[:k + 1], "code": x, "model": y, "correspondence": "engine line protocol"}, no_input=True)
        if i < 1:
            res.sample({"ops_tail": ops[-30:]})
    # a backup INTO THE DIRECTORY OF AN EARLIER BACKUP, after a merge and its adoption have replaced data files of the source by
    # shorter ones: the copy must be the source's files, not the new bytes followed by the tail of the old copy
    for i in range(6 if ctx.quick else 40):
        rng = rng_for(ctx.seed, "C20r", i)
        io = i % 2
        cfg = {"fs": rng.choice([4096, 8192]), "sync": 0, "bps": 0, "idx": rng.choice([1, 2, 3]), "io": io, "shards": 4}
        keys = ["%02x%02x" % (97 + j, 97 + j) for j in range(6)]
        seed = rng.randrange(1000)
        ops = [engine.open_line("d", cfg)]
        # every other run uses ONE record size throughout: the files a merge rewrites then have the very sizes of the files they
        # replace (same id, same size, other content) - a copy must not be skipped because "it is already there"
        uniform = rng.choice([500, 900]) if i % 2 == 1 else None
        for r in range(3):
            for k in keys:
                seed += 1
                ops.append("put %s p%d:%d" % (k, seed, uniform or rng.choice([300, 700, 1100, 1500])))
        ops += ["backup bk"] + ([] if uniform else ["del " + keys[0]])
        for k in (keys if uniform else keys[1:4]):
            seed += 1
            ops.append("put %s p%d:%d" % (k, seed, uniform or rng.choice([10, 333, 900])))
        ops += ["merge", "close", engine.open_line("d", cfg)]
        for k in ([] if uniform else keys[2:5]):
            seed += 1
            ops.append("put %s p%d:%d" % (k, seed, rng.choice([20, 450, 1300])))
        at_backup = len(ops) + 1
        ops += ["backup bk", "dump", "put %s x01" % keys[5], "close", "files bk", engine.open_line("bk", dict(cfg, io=0)), "dump", "close"]
        base = ctx.scratch.fresh()
        try:
            outs = run_impl(ops, base, timeout=300)
        finally:
            ctx.scratch.drop(base)
        res.evaluations += 1
        res.count("rebackup_runs")
        res.distinct.add("rebackup:%d:%s" % (i, outs[at_backup][:60]))
        bad = [(op, o) for op, o in zip(ops, outs) if o.startswith(("panic", "died", "err:", "bad:")) and not op.startswith("get")]
        if bad:
            res.violation("backup into the directory of an earlier backup (run %d, io=%d): `%s` -> %s" % (i, io, bad[0][0], bad[0][1]), {"ops": ops})
            continue
        if outs[-2] != outs[at_backup]:
            res.violation("backup into the directory of an earlier backup (run %d, io=%d): the copy opens to %s, the source had %s when Backup was called" % (
                i, io, outs[-2][:200], outs[at_backup][:200]), {"ops": ops})
            continue
        d = diff_model(res, ctx, ops, outs, "C20 re-backup %d" % i)
        if d is not None:
            k, x, y = d
            res.violation("correspondence broke on re-backup run %d at `%s`: code=%s model=%s" % (i, ops[k], x[:200], y[:200]),
                          {"ops": ops[:k + 1], "code": x, "model": y, "correspondence": "engine line protocol"}, no_input=True)
    # backups taken while a writer and several readers keep going: "the source is unaffected and remains usable"
    from . import conccheck
    for io in ((1, 0) if ctx.quick else (1, 0, 1, 1)):
        for idx in ((1,) if ctx.quick else (1, 2, 3)):
            rep, err, rc = conccheck.run_race(ctx, 2 if ctx.quick else 10, 8, idx, io, ctx.seed, race=False, mode="backup")
            res.evaluations += 1
            res.count("backup_under_load_runs")
            name = "Backup every few ms under 8 readers and a writer (index %d, io %d)" % (idx, io)
            if rep is None:
                res.violation("%s: the process died: %s" % (name, err[-400:]), {"cmd": "xkv race <dir> 2 8 %d %d %d backup" % (idx, io, ctx.seed), "stderr": err[-2000:]})
            elif rep.get("errors"):
                res.violation("%s: %s" % (name, json.dumps(rep["errors"])[:300]), {"cmd": "xkv race <dir> 2 8 %d %d %d backup" % (idx, io, ctx.seed), "report": rep})
            else:
                res.count("backups_under_load", rep["counts"].get("backup", 0))
                res.count("gets_during_backups", rep["counts"].get("get", 0))
                res.distinct.add("bk%d%d" % (idx, io))
    # the file layer under Backup: ResetFileSize on mapped files, then continued reads and appends
    from . import fiocheck
    fiocheck.run(res, ctx, "C20", 10 if ctx.quick else 200, diff_model, rng_for, backup_bias=True)
    return "histories (rotated files, batches, merges, adopted merges) with two backups taken during continued writing, followed by writes of 1 byte, " \
           "up to a page and several pages; the copies are opened under other configurations, written to and restarted; the source is restarted; " \
           "all dumps against per-directory reference maps; both I/O types in alternation; the copy must not contain the lock file"


CHECKS = {
    "C01": check_C01,
    "C02": check_C02,
    "C11": check_C11,
    "C12": check_C12,
    "C03": check_C03,
    "C04": check_C04,
    "C13": check_C13,
    "C10": check_C10,
    "C05": check_C05,
    "C06": check_C06,
    "C07": check_C07,
    "C08": check_C08,
    "C09": check_C09,
    "C14": check_C14,
    "C15": check_C15,
    "C16": check_C16,
    "C17": check_C17,
    "C18": check_C18,
    "C19": check_C19,
    "C20": check_C20,
}

A_MODEL = "the hand-written Lean model is the code on the explored inputs (differential correspondence), not by construction"
A_THIRD = "google/btree, huandu/skiplist, Go maps, container/heap, sort.Search behave as finite sorted maps / priority queue / binary search"
A_FS = "kernel file semantics: write/rename/unlink/ftruncate atomic w.r.t. process death, O_APPEND appends, a shared mapping inside the file is the file"
A_SYNC = "fsync/msync make the covered prefix durable; created files' directory entries are durable (no power can be cut in the sandbox)"
A_IDS = "batch ids (snowflake, time based) are fresh w.r.t. unfinished batches already in the log"
ASSUME = {
    "C01": [A_MODEL, A_THIRD, "key/value sizes < 2^31 (the Go header buffer)"],
    "C02": [A_MODEL, A_THIRD, A_IDS],
    "C03": [A_MODEL, A_FS, A_SYNC, "a crash image is a cut of the files at an intercepted I/O event; power loss cuts only unsynced tails (no page reordering)"],
    "C04": [A_MODEL, A_FS, A_SYNC, A_IDS],
    "C05": [A_MODEL, A_THIRD, A_IDS],
    "C06": [A_MODEL, A_FS, A_IDS, "the order in which Merge visits older files (Go map iteration) is an input of the model"],
    "C07": [A_MODEL, A_FS, "os.Rename over an existing file is atomic; a crash falls between two file-system calls"],
    "C08": [A_MODEL, "the lockset table extracted from the Go AST describes the code (walker semantics: inlining, defer, branches)", "sync.RWMutex semantics",
            "the sharded index is one atomic map per operation (shard locks; C09_generated)"],
    "C09": ["lockset table as under C08", "the Go memory model is not formalised; races inside third-party containers (google/btree, huandu/skiplist, mmap-go) are outside the model; fio.MMap is covered by its own generated lock table",
            "the race detector sees only executed schedules (search role)"],
    "C10": [A_MODEL, A_THIRD, "xxhash is an arbitrary function (shard of a key is an input of the model)"],
    "C11": [A_MODEL, "hash/crc32 IEEE = the bitwise reflected CRC-32 of the model (checked by byte-exact file sums)"],
    "C12": [A_MODEL, "fault model: bit flips, overwrites, truncation of data/hint/marker files; a CRC-valid foreign payload is outside it"],
    "C13": [A_MODEL, A_SYNC],
    "C14": [A_MODEL, A_THIRD],
    "C15": ["no formal model of Go's heap: absence of aliasing is established by the scribble-mode differential runs"],
    "C16": ["flock(2) / gofrs/flock give one exclusive advisory lock per directory across processes"],
    "C17": [A_MODEL, "key+value <= 2^27 bytes for the size-estimate lemma (first under-estimate documented at ~146 MiB / 293 MiB / 439 MiB depending on the record)"],
    "C18": [A_MODEL, "file ids and sizes < 2^32 (hint fields are uint32)"],
    "C19": [A_MODEL, "time.Now is monotone between deletion/expiry of a key and its re-creation; user keys prefix-free; zset member/score-key clash excluded"],
    "C20": [A_MODEL, A_FS, "utils.CopyDir copies bytes (no hard links)"],
}


def run_corpus(res, ctx):
    """minimised past failures (one per repaired defect) always run first"""
    d = os.path.join(core.VERIF, "corpus", ctx.pid)
    if not os.path.isdir(d):
        return
    for fn in sorted(os.listdir(d)):
        if not fn.endswith(".json"):
            continue
        c = json.load(open(os.path.join(d, fn)))
        ops = c["ops"]
        base = ctx.scratch.fresh()
        try:
            outs = run_impl(ops, base)
        finally:
            ctx.scratch.drop(base)
        res.evaluations += 1
        res.count("corpus_cases")
        res.distinct.add("corpus:" + fn)
        problems = []
        kind = c.get("oracle", "ref")
        if "ref" in kind or kind == "c17":
            problems += [m for _, m in engine.run_oracle(ops, outs).problems]
        if "exact" in kind:
            problems += ["`%s` -> %s, expected %s" % (op, o, e) for op, o, e in zip(ops, outs, c.get("expect", [])) if e is not None and o != e]
        if kind == "c17":
            fs = int(ops[0].split()[2]) if ops[0].startswith("open ") else 1 << 62
            problems += [m for _, m in c17_oracle(ops, outs, lambda j: fs)]
            for op, o in zip(ops, outs):
                if op.startswith("files ") and o.startswith("files "):
                    for it in [x for x in o[6:].split(",") if x.endswith and ".data:" in x]:
                        if int(it.rsplit(":", 1)[1]) > fs:
                            # allowed only for a single oversized record; the corpus cases have none
                            problems.append("data file %s exceeds DataFileSize %d" % (it, fs))
        if problems:
            res.violation("corpus case %s (%s): %s" % (fn, c.get("about", "")[:120], problems[0]), {"ops": ops, "corpus": fn})
            continue
        dm = diff_model(res, ctx, ops, outs, fn)
        if dm is not None:
            k, x, y = dm
            res.violation("correspondence broke on corpus case %s at `%s`: code=%s model=%s" % (fn, ops[k], x[:200], y[:200]),
                          {"ops": ops[:k + 1], "code": x, "model": y, "correspondence": "engine line protocol"}, no_input=True)


def main(argv):
    if not argv:
        print("usage: check <id> [quick|thorough]")
        return 2
    pid = argv[0]
    tier = argv[1] if len(argv) > 1 and argv[1] in ("quick", "thorough") else os.environ.get("VERIF_TIER", "quick")
    seed = int(os.environ.get("VERIF_SEED", "1"))
    if "--replay" in argv:
        from . import replay
        return replay.replay(pid, argv[argv.index("--replay") + 1])
    res = Result(pid, tier, seed)
    ctx = Ctx(pid, tier, seed)
    res.trusted = list(TRUSTED_COMMON)
    try:
        fn = CHECKS[pid]
        need_race = pid in ("C09",)
        rule = ""
        if prelude(res, ctx, need_race=need_race):
            run_corpus(res, ctx)
            rule = fn(res, ctx) or ""
        res.assumptions = ASSUME.get(pid, [])
        return res.finish(level="proof", rule=rule)
    finally:
        ctx.scratch.close()
