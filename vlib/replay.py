"""bin/check <id> --replay <file>: re-run the failing input of a replay file on the real engine and print what it does."""
import json
import sys

from . import core, engine
from .core import Scratch, run_impl


def replay(pid, path):
    r = json.load(open(path))
    first = r.get("first", r)
    rp = first.get("replay", first)
    print("property:", r.get("property", pid))
    print("what:", first.get("what", ""))
    ok, out = core.build_harness()
    if not ok:
        print("harness does not build:", out[-500:])
        return 2
    sc = Scratch(pid + "-replay")
    try:
        ops = rp.get("ops") or rp.get("ops_a")
        if ops and "crash_event" in rp:
            # re-run the crash enumeration of this workload and show the image in question
            from . import crashcheck

            class C:
                scratch = sc
            recs, err, rc = crashcheck.run_crash(C, ops, mode="io", cuts="few" if rp.get("cut") else "none", dumpfiles=False)
            hit = [r for r in recs if r["kind"] == "image" and r["k"] == rp["crash_event"] and (r.get("cut") or None) == (rp.get("cut") or None)]
            for r in hit[:3]:
                print("image at event %d (%s) cut=%s: open=%s dump=%s reopen=%s" % (r["k"], r["ev"], r.get("cut"), r.get("open"),
                                                                                   str(r.get("dump"))[:300], r.get("open2")))
            if not hit:
                print("no image for event", rp["crash_event"], "(workload events:", sum(1 for r in recs if r["kind"] == "event"), ")")
            return 0
        if rp.get("scenario"):
            from . import conccheck

            class C:
                scratch = sc
            outs, err = conccheck.run_sched(C, [rp["scenario"]])
            print(json.dumps(outs, indent=1)[:3000])
            return 0
        if ops:
            base = sc.fresh()
            outs = run_impl(ops, base)
            for op, o in zip(ops, outs):
                print("  %-60s -> %s" % (op[:60], o[:160]))
            probs = engine.run_oracle(ops, outs).problems
            print("reference-map oracle:", probs[:3] if probs else "no problem")
            return 1 if probs else 0
        print(json.dumps(rp, indent=1)[:4000])
        return 0
    finally:
        sc.close()
