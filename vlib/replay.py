"""bin/check <id> --replay <file>: re-run the failing input of a replay file on the real engine and print what it does."""
import json
import sys

from . import core, engine
from .core import Scratch, run_impl


def replay(pid, path):
    r = json.load(open(path))
    first = r.get("first", r)
    rp = first.get("replay", first)
    print("property:", r.get("property", pid))
    print("what:", first.get("what", ""))
    ok, out = core.build_harness()
    if not ok:
        print("harness does not build:", out[-500:])
        return 2
    sc = Scratch(pid + "-replay")
    try:
        ops = rp.get("ops") or rp.get("ops_a")
        if ops:
            base = sc.fresh()
            outs = run_impl(ops, base)
            for op, o in zip(ops, outs):
                print("  %-60s -> %s" % (op[:60], o[:160]))
            probs = engine.run_oracle(ops, outs).problems
            print("reference-map oracle:", probs[:3] if probs else "no problem")
            return 1 if probs else 0
        print(json.dumps(rp, indent=1)[:4000])
        return 0
    finally:
        sc.close()
