"""C11 / C12 / C03-bytes: datafile-level generators and oracles."""
import subprocess

from . import core, engine
from .engine import BS, H


def geom_cases(rng, quick):
    cases = []
    if quick:
        offs = sorted(set(list(range(0, 64)) + list(range(BS - 64, BS)) + [rng.randrange(BS) for _ in range(1500)]))
    else:
        offs = range(BS)
    for o in offs:
        on = 0 if o + H >= BS else o
        lens = set()
        for k in range(3):           # record end within +-8 of the first three boundaries
            for d in range(-8, 9):
                # total bytes from on to boundary k+1 plus d, minus headers for k+1 (or k+2) chunks
                for chunks in (k + 1, k + 2):
                    n = (k + 1) * BS + d - on - H * chunks
                    if n >= 0:
                        lens.add(n)
        for _ in range(3 if quick else 2):
            lens.add(rng.randrange(0, 4 * BS))
        lens.update([0, 1, 2, 7, 8])
        for n in lens:
            cases.append((o, n))
    return cases


def run_geom(exe_args, lines, cwd=None):
    r = subprocess.run(exe_args, input=lines, capture_output=True, text=True, cwd=cwd)
    return r.stdout.split("\n")


def geom_sweep(res, ctx):
    rng = core.rng_for(ctx.seed, "geom")
    cases = geom_cases(rng, ctx.quick)
    inp = "".join("geom %d %d\n" % c for c in cases)
    impl = run_geom([core.XKV, "geom", ctx.scratch.dir], inp)
    model = run_geom([core.DRIVER], inp) if ctx.model_ok else None
    bad_model = bad_oracle = 0
    boundary_hits = 0
    for i, (o, n) in enumerate(cases):
        a = impl[i] if i < len(impl) else "missing"
        # direct oracle: independent Python geometry
        pad, b, off, occ, newsize, chunks = engine.write_geom(o, n)
        if n == 0:
            occ = 0
            newsize = o + pad
        exp = "%d %d %d %d %d" % (b, off, occ, newsize // BS, newsize % BS)
        if (newsize % BS) <= 8 or (newsize % BS) >= BS - 8:
            boundary_hits += 1
        if a != exp:
            bad_oracle += 1
            if bad_oracle <= 3:
                res.violation("writeToBuf geometry for start offset %d, length %d: code=%s expected=%s" % (o, n, a, exp),
                              {"ops": ["geom %d %d" % (o, n)], "code": a, "expected": exp})
        if model is not None:
            m = model[i] if i < len(model) else "missing"
            if a != m and bad_oracle == 0:
                bad_model += 1
                if bad_model <= 3:
                    res.violation("correspondence broke (geometry) at offset %d length %d: code=%s model=%s" % (o, n, a, m),
                                  {"ops": ["geom %d %d" % (o, n)], "code": a, "model": m, "correspondence": "writeToBuf geometry"},
                                  no_input=True)
    res.evaluations += len(cases)
    res.distinct.update("g%d.%d" % c for c in cases[:200000:7])
    res.count("geom_cases", len(cases))
    res.count("geom_end_within_8_of_boundary", boundary_hits)
    res.extra["geometry_exhaustive_offsets"] = not ctx.quick
    res.sample({"geom": ["geom %d %d -> %s" % (cases[i][0], cases[i][1], impl[i]) for i in range(0, min(len(cases), 3000), 1000)]})


def rec_token(rng, seedbox, maxlen):
    seedbox[0] += 1
    r = rng.random()
    klen = rng.choice([0, 1, 2, 5, 20, 130, 300]) if r < 0.9 else rng.choice([1000, 5000])
    key = bytes(rng.randrange(256) for _ in range(klen)).hex() or "-"
    r = rng.random()
    if r < 0.15:
        v = "-"
    elif r < 0.5:
        v = "p%d:%d" % (seedbox[0], rng.choice([1, 3, 10, 100, 1000, 5000]))
    elif r < 0.85:
        v = "p%d:%d" % (seedbox[0], rng.randrange(BS - 300, BS + 50))
    else:
        v = "p%d:%d" % (seedbox[0], rng.randrange(BS, maxlen))
    typ = rng.choice([0, 0, 0, 1, 2])
    batch = rng.choice([0, 0, 5, 300, 1 << 40, (1 << 64) - 1])
    return "%d %s %s %d" % (typ, key, v, batch)


def df_sequence(rng, io, steered=True):
    """ops for one data file: single writes and multi-record flushes, then reads."""
    ops = ["df.open t 1 %d" % io]
    seedbox = [rng.randrange(1000)]
    size = 0
    written = []   # (rec token)
    n = rng.choice([3, 8, 20])
    for _ in range(n):
        if rng.random() < 0.6:
            tok = rec_token(rng, seedbox, 3 * BS)
            if steered and rng.random() < 0.5:
                # steer the record end onto a block boundary
                f = tok.split()
                klen = 0 if f[1] == "-" else len(f[1]) // 2
                v = engine.vlen_for_end(size, klen, int(f[3]), rng.choice([-8, -7, -3, -1, 0, 8, 9]), rng.choice([0, 0, 1]))
                if v is not None and v <= 3 * BS:
                    f[2] = "p%d:%d" % (seedbox[0], v) if v else "-"
                    tok = " ".join(f)
            ops.append("df.write " + tok)
            written.append(tok)
            f = tok.split()
            klen = 0 if f[1] == "-" else len(f[1]) // 2
            size = engine.write_geom(size, engine.payload_len(klen, core.val_len(f[2]), int(f[3])))[4]
        else:
            k = rng.choice([0, 1, 2, 5])
            for _ in range(k):
                tok = rec_token(rng, seedbox, 2 * BS)
                ops.append("df.stage " + tok)
                written.append(tok)
                f = tok.split()
                klen = 0 if f[1] == "-" else len(f[1]) // 2
                size = engine.write_geom(size, engine.payload_len(klen, core.val_len(f[2]), int(f[3])))[4]
            ops.append("df.flush")
    ops += ["df.size", "df.scan", "df.sync", "df.close", "df.open t 1 %d" % io, "df.size", "df.phys", "df.scan"]
    # position-based reads at the predicted positions (the oracle checks them against the reported ones)
    sz = 0
    for tok in written:
        f = tok.split()
        klen = 0 if f[1] == "-" else len(f[1]) // 2
        g = engine.write_geom(sz, engine.payload_len(klen, core.val_len(f[2]), int(f[3])))
        ops.append("df.readval %d %d" % (g[1], g[2]))
        sz = g[4]
    ops += ["df.readval %d 0" % (sz // BS + 1), "df.sum", "df.close"]
    return ops, written


def df_oracle(ops, outs, written):
    """read-back equals written, positions equal, sizes consistent."""
    problems = []
    reported = []
    for op, out in zip(ops, outs):
        if out.startswith(("panic:", "died", "dead", "bad:")):
            problems.append("%s -> %s" % (op, out))
        if op.startswith("df.write"):
            if not out.startswith("pos "):
                problems.append("%s -> %s" % (op, out))
            else:
                reported.append(out[4:])
        elif op == "df.flush":
            if not out.startswith("flushed"):
                problems.append("%s -> %s" % (op, out))
            else:
                reported += [x for x in out[8:].split(",") if x]
    exp_recs = []
    for tok, pos in zip(written, reported):
        f = tok.split()
        exp_recs.append("%s/%s/%s/%s@%s" % (f[0], f[1], core.fmt_val(core.val_bytes(f[2])), f[3], pos))
    exp_scan = "scan " + " ".join(exp_recs + ["eof"])
    sizes = [o for op, o in zip(ops, outs) if op == "df.size"]
    for op, out in zip(ops, outs):
        if op == "df.scan" and out != exp_scan:
            problems.append("scan differs from what was written: got %s expected %s" % (out[:300], exp_scan[:300]))
    reads = [(op, o) for op, o in zip(ops, outs) if op.startswith("df.readval")]
    for (op, out), tok, pos in zip(reads, written, reported):
        f = tok.split()
        pb, po = pos.split(".")[1:3]
        if op == "df.readval %s %s" % (pb, po):
            exp = core.fmt_val(core.val_bytes(f[2]))
            if out != exp:
                problems.append("%s -> %s, expected the written value %s" % (op, out, exp))
    if reads and reads[-1][1] != "err:eof":
        problems.append("read beyond the last block -> %s, expected err:eof" % reads[-1][1])
    if len(set(sizes)) > 1:
        problems.append("logical size changed across close/open: %s" % sizes)
    phys = [o for op, o in zip(ops, outs) if op == "df.phys"]
    if sizes and phys and not phys[0].startswith("phys") :
        problems.append("phys: %s" % phys)
    if sizes and phys:
        logical = sizes[-1].split()[1].split("=")[1]
        # after a clean close + reopen with standard I/O the physical size is the logical size
        if "df.open t 1 0" in ops[0] and phys[0] != "phys " + logical:
            problems.append("physical size %s differs from logical size %s" % (phys[0], logical))
    return problems, reported
