"""C12: corruption runs (exhaustive single-bit flips of small databases, random damage of larger ones)."""
from . import core, engine
from .core import run_impl, run_model


def small_db_ops(rng, variant):
    """a small database (a few hundred bytes) in directory `orig`; returns (ops, history of values per key)"""
    cfg = "65536 0 0 %d 0 %d" % (rng.choice([1, 2, 3]), rng.choice([1, 4, 16]))
    ops = ["open orig " + cfg]
    hist = {}
    keys = [bytes([97 + i]) * rng.choice([1, 2, 3]) for i in range(4)]
    seed = rng.randrange(1000)

    def put(k):
        nonlocal seed
        seed += 1
        n = rng.choice([0, 1, 5, 20, 60])
        tok = "p%d:%d" % (seed, n) if n else "-"
        hist.setdefault(k, set()).add(core.fmt_val(core.val_bytes(tok)))
        return tok
    for _ in range(rng.choice([4, 6, 9])):
        r = rng.random()
        k = rng.choice(keys)
        if r < 0.6:
            ops.append("put %s %s" % (k.hex(), put(k)))
        elif r < 0.75:
            ops.append("del %s" % k.hex())
        else:
            ops.append("bnew 0 %d" % (7000000 + seed))
            for _ in range(rng.choice([1, 2, 3])):
                kk = rng.choice(keys)
                if rng.random() < 0.7:
                    ops.append("bput %s %s" % (kk.hex(), put(kk)))
                else:
                    ops.append("bdel %s" % kk.hex())
            ops += ["bcommit", "bdrop"]
    if variant == "merged":
        ops.append("merge")
    ops += ["dump", "close"]
    return ops, hist, cfg


BLOCK = 32768


def served_ok(dump, hist):
    """every served (key, value) is a value that was written for that key"""
    if not dump.startswith("dump n="):
        return None
    body = dump.split(" ", 2)[2] if dump.count(" ") >= 2 else ""
    for item in [x for x in body.split(",") if x]:
        k, v = item.split("=", 1)
        if v.startswith("err:") or v == "notfound":
            continue
        if v not in hist.get(bytes.fromhex(k), set()):
            return "key %s served %s which was never written for it" % (k, v)
    return None


def flip_ops(dirs, target_dir, fname, off, mask, cfg):
    ops = []
    for src, dst in dirs:
        ops.append("cpdir %s %s" % (src, dst))
    if mask == "T":
        # truncation to `off` bytes (positions handed out by a hint file may then lie beyond the end of the file)
        ops += ["trunc %s %s %d" % (target_dir, fname, off), "open w " + cfg, "dump", "fold", "close"]
    else:
        ops += ["corrupt %s %s %d %d" % (target_dir, fname, off, mask), "open w " + cfg, "dump", "fold", "close"]
    return ops


def multiblock_db_ops(rng):
    """a database with records spanning several 32 KiB blocks (full-block chunks have the largest legal length)"""
    cfg = "1048576 0 0 %d 0 4" % rng.choice([1, 2, 3])
    ops = ["open orig " + cfg]
    hist = {}
    seed = rng.randrange(1000)
    for k, n in ((b"aa", rng.choice([70000, 98300])), (b"bb", 5), (b"cc", rng.choice([32761 - 12, 32768 * 2])), (b"dd", 60)):
        seed += 1
        tok = "p%d:%d" % (seed, n)
        hist.setdefault(k, set()).add(core.fmt_val(core.val_bytes(tok)))
        ops.append("put %s %s" % (k.hex(), tok))
    ops += ["dump", "close"]
    return ops, hist, cfg


def check_db(res, ctx, rng, variant, exhaustive_limit):
    if variant == "multiblock":
        setup, hist, cfg = multiblock_db_ops(rng)
    else:
        setup, hist, cfg = small_db_ops(rng, variant)
    base = ctx.scratch.fresh()
    try:
        outs = run_impl(setup + ["files orig", "files orig-merge"], base)
        listing = {}
        for name, line in (("orig", outs[-2]), ("orig-merge", outs[-1])):
            if line.startswith("files ") and line != "files absent":
                for it in [x for x in line[6:].split(",") if x]:
                    f, sz = it.rsplit(":", 1)
                    listing[(name, f)] = int(sz)
        dirs = [("orig", "w")] + ([("orig-merge", "w-merge")] if any(d == "orig-merge" for d, _ in listing) else [])
        targets = []
        for (d, f), sz in sorted(listing.items()):
            if sz == 0:
                continue
            wd = "w" if d == "orig" else "w-merge"
            if variant == "multiblock":
                # every bit of the 16 bytes at each block start (chunk headers of First/Middle/Last chunks), of the
                # first bytes of the file and of the last 90 bytes
                offs = sorted(set(o for blk in range(0, sz, 32768) for o in range(blk, min(sz, blk + 16))) | set(range(max(0, sz - 90), sz)))
                positions = [(o, 1 << b) for o in offs for b in range(8)]
                res.count("multiblock_header_flips", len(positions))
            else:
                positions = [(o, 1 << b) for o in range(sz) for b in range(8)]
                if len(positions) > exhaustive_limit:
                    positions = rng.sample(positions, exhaustive_limit)
                    res.count("files_sampled")
                else:
                    res.count("files_exhaustive")
            targets += [(wd, f, o, m) for o, m in positions]
            if variant == "merged" and f.endswith(".data"):
                # every truncation length of the data files (the rewritten ones are indexed through the hint file
                # without being scanned, so their positions survive the cut)
                cuts = list(range(sz)) if sz <= 400 else sorted(set(rng.sample(range(sz), 120)) | {0, 1, sz - 1})
                targets += [(wd, f, n, "T") for n in cuts]
                res.count("truncations_of_merged_files", len(cuts))
        # run in chunks inside one process; a dead process restarts after the offending flip
        i = 0
        per = 6 + (1 if len(dirs) > 1 else 0)
        while i < len(targets):
            chunk = targets[i:i + 400]
            ops = list(setup)
            spans = []
            for t in chunk:
                fo = flip_ops(dirs, t[0], t[1], t[2], t[3], cfg)
                spans.append((len(ops), len(ops) + len(fo)))
                ops += fo
            b2 = ctx.scratch.fresh()
            try:
                o = run_impl(ops, b2, timeout=300)
            finally:
                ctx.scratch.drop(b2)
            mo = run_model(core.model_ops(ops)) if ctx.model_ok else None
            died_at = None
            for (a, z), t in zip(spans, chunk):
                seg_ops, seg_out = ops[a:z], o[a:z]
                res.evaluations += 1
                outcome = seg_out[-4] if len(seg_out) >= 4 else "?"
                res.count("open_outcome:" + outcome.split("(")[0])
                res.distinct.add("%s:%s:%d:%s" % (variant, t[1], t[2], t[3]))
                bad = None
                for op, out in zip(seg_ops, seg_out):
                    if out.startswith(("panic:", "died", "dead")):
                        bad = "%s -> %s after %s of %s" % (op, out, ("truncation to %d bytes" % t[2]) if t[3] == "T" else "flipping bit mask %d of byte %d" % (t[3], t[2]), t[1])
                        break
                    if op == "dump":
                        msg = served_ok(out, hist)
                        if msg:
                            bad = msg + " after %s of %s" % (("truncation to %d bytes" % t[2]) if t[3] == "T" else "flipping bit mask %d of byte %d" % (t[3], t[2]), t[1])
                            break
                if bad:
                    res.violation(bad, {"ops": setup + seg_ops, "flip": t})
                    if any(x.startswith(("died", "dead")) for x in seg_out):
                        died_at = t
                        break
                    continue
                if mo is not None:
                    seg_m = mo[a:z]
                    for op, x, y in zip(seg_ops, seg_out, seg_m):
                        if y != "?" and x != y:
                            res.violation("correspondence broke under corruption (%s byte %d mask %s) at `%s`: code=%s model=%s" % (
                                t[1], t[2], t[3], op, x[:200], y[:200]),
                                {"ops": setup + seg_ops, "code": x, "model": y, "correspondence": "corruption outcome"}, no_input=True)
                            break
            if died_at is not None:
                i += chunk.index(died_at) + 1
            else:
                i += len(chunk)
        res.sample({"variant": variant, "setup": setup, "files": {"%s/%s" % k: v for k, v in listing.items()}, "flips": len(targets)})
    finally:
        ctx.scratch.drop(base)


def random_damage(res, ctx, rng, idx):
    """larger database, random multi-byte overwrites / truncations / block-sized garbage"""
    cfg = engine.rand_cfg(rng, io=0, fs=rng.choice([20000, 65536, 1 << 20]))
    g = engine.Gen(rng, cfg, nkeys=6, d="orig", weights={"reopen": 0, "merge": 1, "emptykey": 0}, max_val=40000)
    setup = g.history(40)
    hist = {}
    for op in setup:
        f = op.split()
        if f[0] in ("put", "bput") and f[1] != "-":
            hist.setdefault(bytes.fromhex(f[1]), set()).add(core.fmt_val(core.val_bytes(f[2])))
    base = ctx.scratch.fresh()
    try:
        outs = run_impl(setup + ["files orig"], base)
        line = outs[-1]
        files = []
        if line.startswith("files "):
            for it in [x for x in line[6:].split(",") if x]:
                f, sz = it.rsplit(":", 1)
                if f.endswith(".data") and int(sz) > 0:
                    files.append((f, int(sz)))
        if not files:
            return
        ops = list(setup)
        spans = []
        for _ in range(25):
            f, sz = rng.choice(files)
            seg = ["cpdir orig w"]
            kind = rng.choice(["bytes", "trunc", "block", "zero-run", "trunc-at-block", "cutout"])
            if kind == "trunc-at-block" and sz <= BLOCK:
                kind = "trunc"
            if kind == "cutout" and sz <= 64:
                kind = "trunc"
            if kind == "trunc":
                seg.append("trunc w %s %d" % (f, rng.randrange(sz)))
            elif kind == "trunc-at-block":
                # exactly on a block boundary: when the boundary lies between two chunks of one record no incomplete chunk is left
                seg.append("trunc w %s %d" % (f, BLOCK * rng.randrange(1, (sz - 1) // BLOCK + 1)))
            elif kind == "cutout":
                # a piece of the file is missing and everything behind it moved up (a whole block, or a random range)
                if sz > 2 * BLOCK and rng.random() < 0.6:
                    seg.append("cutout w %s %d %d" % (f, BLOCK * rng.randrange(0, sz // BLOCK - 1), BLOCK))
                else:
                    o = rng.randrange(sz - 1)
                    seg.append("cutout w %s %d %d" % (f, o, rng.randrange(1, min(sz - o, 70000))))
            elif kind == "bytes":
                o = rng.randrange(sz)
                for j in range(rng.choice([2, 3, 8])):
                    if o + j < sz:
                        seg.append("corrupt w %s %d %d" % (f, o + j, rng.randrange(1, 256)))
            elif kind == "block":
                o = rng.randrange(sz)
                for j in range(0, min(64, sz - o)):
                    seg.append("corrupt w %s %d %d" % (f, o + j, rng.randrange(1, 256)))
            else:
                o = rng.randrange(sz)
                seg.append("trunc w %s %d" % (f, o))
                seg.append("trunc w %s %d" % (f, sz))   # re-extend with zeros
            seg += ["open w " + engine.open_line("w", cfg).split(" ", 2)[2], "dump", "fold", "close"]
            spans.append((len(ops), len(ops) + len(seg), kind))
            ops += seg
        b2 = ctx.scratch.fresh()
        try:
            o = run_impl(ops, b2, timeout=300)
        finally:
            ctx.scratch.drop(b2)
        mo = run_model(core.model_ops(ops)) if ctx.model_ok else None
        for a, z, kind in spans:
            res.evaluations += 1
            res.count("random_damage:" + kind)
            seg_ops, seg_out = ops[a:z], o[a:z]
            res.distinct.add("rd%d:%d:%s" % (idx, a, seg_out[-4] if len(seg_out) > 3 else ""))
            bad = None
            for op, out in zip(seg_ops, seg_out):
                if out.startswith(("panic:", "died", "dead")):
                    bad = "%s -> %s after %s damage" % (op, out, kind)
                    break
                if op == "dump":
                    msg = served_ok(out, hist)
                    if msg:
                        bad = msg + " after %s damage" % kind
                        break
            if bad:
                aligned = kind == "cutout" and all(int(x) % BLOCK == 0 for x in seg_ops[1].split()[3:5])
                jbad = next((j for j, (op, out) in enumerate(zip(seg_ops, seg_out)) if op == "dump" and served_ok(out, hist)), None)
                same = mo is not None and jbad is not None and mo[a + jbad] == seg_out[jbad]
                if res.violation(bad, {"ops": setup + seg_ops}, key=("crc-valid-chunks-recombined" if aligned and " served " in bad and same else None)):
                    break
                continue
            if mo is not None:
                for op, x, y in zip(seg_ops, seg_out, mo[a:z]):
                    if y != "?" and x != y:
                        res.violation("correspondence broke under %s damage at `%s`: code=%s model=%s" % (kind, op, x[:200], y[:200]),
                                      {"ops": setup + seg_ops, "code": x, "model": y, "correspondence": "corruption outcome"}, no_input=True)
                        break
    finally:
        ctx.scratch.drop(base)


def check_truncated_hinted(res, ctx, rng):
    """A merge whose output spans several files; the rewritten files EXCEPT THE LAST are indexed through the hint file
    without being scanned, so after truncating one of them Open succeeds and the index holds positions beyond the end
    of the file: every Get / Fold must answer with the value or an error."""
    from . import crashcheck
    ops0, cfg = crashcheck.merge_workload(rng, io=0)
    cfgs = engine.open_line("x", cfg).split(" ", 2)[2]
    setup = ["open orig " + cfgs] + [o for o in ops0[1:ops0.index("merge") + 1]] + ["dump", "close"]
    hist = {}
    for op in setup:
        f = op.split()
        if f[0] in ("put", "bput"):
            hist.setdefault(bytes.fromhex(f[1]), set()).add(core.fmt_val(core.val_bytes(f[2])))
    base = ctx.scratch.fresh()
    try:
        outs = run_impl(setup + ["files orig-merge"], base)
    finally:
        ctx.scratch.drop(base)
    line = outs[-1]
    files = []
    if line.startswith("files ") and line != "files absent":
        for it in [x for x in line[6:].split(",") if x]:
            f, sz = it.rsplit(":", 1)
            if f.endswith(".data") and int(sz) > 0:
                files.append((f, int(sz)))
    files.sort()
    if len(files) < 2:
        res.count("truncated_hinted:single_output_file")
        return
    ops = list(setup)
    spans = []
    for f, sz in files[:-1]:
        for n in sorted(set(rng.sample(range(sz), min(sz, 14))) | {0, sz // 3, sz - 1}):
            seg = ["cpdir orig w", "cpdir orig-merge w-merge", "trunc w-merge %s %d" % (f, n), "open w " + cfgs, "dump", "fold", "close", "rmdir w", "rmdir w-merge"]
            spans.append((len(ops), len(ops) + len(seg), f, n))
            ops += seg
    base = ctx.scratch.fresh()
    try:
        o = run_impl(ops, base, timeout=300)
    finally:
        ctx.scratch.drop(base)
    mo = run_model(core.model_ops(ops)) if ctx.model_ok else None
    for a, z, f, n in spans:
        res.evaluations += 1
        res.count("truncated_hinted_files")
        seg_ops, seg_out = ops[a:z], o[a:z]
        res.count("truncated_hinted_open:" + (seg_out[3] if len(seg_out) > 3 else "?").split("(")[0])
        res.distinct.add("trunc-hinted:%s:%d" % (f, n))
        bad = None
        for op, out in zip(seg_ops, seg_out):
            if out.startswith(("panic:", "died", "dead")):
                bad = "%s -> %s after truncating the hinted file %s of a merged database to %d bytes" % (op, out[:120], f, n)
                break
            if op == "dump":
                msg = served_ok(out, hist)
                if msg:
                    bad = msg + " after truncating the hinted file %s to %d bytes" % (f, n)
                    break
        if bad:
            res.violation(bad, {"ops": setup + seg_ops})
            if any(x.startswith(("died", "dead")) for x in seg_out):
                break
            continue
        if mo is not None:
            for op, x, y in zip(seg_ops, seg_out, mo[a:z]):
                if y != "?" and x != y:
                    res.violation("correspondence broke after truncating the hinted file %s to %d bytes at `%s`: code=%s model=%s" % (f, n, op, x[:200], y[:200]),
                                  {"ops": setup + seg_ops, "code": x, "model": y, "correspondence": "corruption outcome"}, no_input=True)
                    break


def check_structural(res, ctx, rng):
    """damage that keeps every chunk intact (all checksums valid) but changes which chunks there are:
    a record cut exactly at the block boundary between two of its chunks in an OLDER file, a whole block missing inside a
    record, two full chunks of one record swapped.  Oracle: every served value was written for that key, no panic;
    the model must predict the same outcome."""
    nblk = rng.choice([3, 4, 5])
    big = "p%d:%d" % (rng.randrange(1, 200), nblk * BLOCK + rng.randrange(0, 3000))
    cfg = {"fs": 8 << 20, "sync": 0, "bps": 0, "idx": rng.choice([1, 2, 3]), "io": 0, "shards": 4}
    cfgs = engine.open_line("w", cfg).split(" ", 2)[2]
    # a second multi-block record whose LAST chunk is longer than that of the first one (a block that starts with it, copied
    # over the block that starts with the other's, yields a payload LONGER than its header declares)
    big2 = "p%d:%d" % (rng.randrange(1, 200), core.val_len(big) + 2000)
    setup = [engine.open_line("orig", cfg), "put 6b x6f6c64", "put 6b " + big, "put 6c " + big2, "put 78 p3:300", "close"]
    hist = {b"k": {core.fmt_val(b"old"), core.fmt_val(core.val_bytes(big))}, b"x": {core.fmt_val(core.val_bytes("p3:300"))},
            b"y": {core.fmt_val(core.val_bytes("p4:300"))}, b"l": {core.fmt_val(core.val_bytes(big2))}}
    # older-file variant: the big record's file is rotated away (file-size limit below the record)
    cfg2 = dict(cfg, fs=nblk * BLOCK // 2)
    setup2 = [engine.open_line("orig2", cfg2), "put 6b x6f6c64", "put 6b " + big, "put 78 p3:300", "put 79 p4:300", "close"]
    cfgs2 = engine.open_line("w", cfg2).split(" ", 2)[2]
    cases = []
    for b in range(1, nblk + 1):
        cases.append(("cut-at-block-boundary/active", "orig", cfgs, ["trunc w 000000000.data %d" % (b * BLOCK)]))
        cases.append(("cut-at-block-boundary/older", "orig2", cfgs2, ["trunc w 000000000.data %d" % (b * BLOCK)]))
    for b in range(0, nblk):
        cases.append(("missing-block", "orig", cfgs, ["cutout w 000000000.data %d %d" % (b * BLOCK, BLOCK)]))
    for b in range(1, nblk - 1):
        cases.append(("swapped-full-chunks", "orig", cfgs, ["swapblk w 000000000.data %d %d %d" % (b * BLOCK, (b + 1) * BLOCK, BLOCK)]))
    nb = 2 * nblk + 1
    pairs = [(x, y) for x in range(nb) for y in range(nb) if x != y]
    rng.shuffle(pairs)
    # the pair "block that starts with the last chunk of the second record over the block that starts with the last chunk of
    # the first" always takes part
    pairs = [(2 * nblk, nblk)] + [p for p in pairs if p != (2 * nblk, nblk)]
    for x, y in pairs[:6]:
        cases.append(("block-copied", "orig", cfgs, ["cpblk w 000000000.data %d %d %d" % (x * BLOCK, y * BLOCK, BLOCK)]))
    ops = setup + setup2
    spans = []
    for name, src, c, dmg in cases:
        seg = ["cpdir %s w" % src] + dmg + ["open w " + c, "get 6b", "dump", "fold", "merge", "close", "rmdir w", "rmdir w-merge"]
        spans.append((len(ops), len(ops) + len(seg), name))
        ops += seg
    # the same kinds of damage while the database is OPEN: the file was validated by the scan at Open, later reads go through the
    # position-based read path only
    for x, y in pairs[:(24 if ctx.quick else 200)]:
        seg = ["cpdir orig w", "open w " + cfgs, "cpblk w 000000000.data %d %d %d" % (x * BLOCK, y * BLOCK, BLOCK), "get 6b", "get 6c", "dump", "fold", "close",
               "rmdir w"]
        spans.append((len(ops), len(ops) + len(seg), "block-copied/while-open"))
        ops += seg
    base = ctx.scratch.fresh()
    try:
        o = run_impl(ops, base, timeout=300)
    finally:
        ctx.scratch.drop(base)
    mo = run_model(core.model_ops(ops, core.LAST_MERGE_ORDERS)) if ctx.model_ok else None
    for a, z, name in spans:
        res.evaluations += 1
        res.count("structural:" + name.split("/")[0])
        seg_ops, seg_out = ops[a:z], o[a:z]
        res.distinct.add("st:%s:%s" % (seg_ops[1], seg_out[2] if len(seg_out) > 2 else ""))
        bad = None
        for op, out in zip(seg_ops, seg_out):
            if out.startswith(("panic:", "died", "dead")):
                bad = "%s -> %s after %s (%s)" % (op, out, name, seg_ops[1])
                break
            if op == "dump":
                msg = served_ok(out, hist)
                if msg:
                    bad = msg + " after %s (%s): every chunk checksum is valid" % (name, seg_ops[1])
                    break
        if bad:
            # whole blocks changed places / are missing / were duplicated and every remaining chunk is intact: the recorded format
            # weakness - but ONLY where the byte-exact model (exact-length rule of the repaired reader) serves the very same bytes;
            # anything the code serves beyond that is a violation
            jbad = next((j for j, (op, out) in enumerate(zip(seg_ops, seg_out)) if op == "dump" and served_ok(out, hist)), None)
            same = mo is not None and jbad is not None and mo[a + jbad] == seg_out[jbad]
            key = "crc-valid-chunks-recombined" if name.split("/")[0] in ("swapped-full-chunks", "missing-block", "block-copied") and " served " in bad and same else None
            if res.violation(bad, {"ops": (setup if "orig2" not in seg_ops[0] else setup2) + seg_ops}, key=key):
                break
            continue
        if mo is not None:
            for op, x, y in zip(seg_ops, seg_out, mo[a:z]):
                if y != "?" and x != y:
                    res.violation("correspondence broke under structural damage (%s, %s) at `%s`: code=%s model=%s" % (name, seg_ops[1], op, x[:200], y[:200]),
                                  {"ops": (setup if "orig2" not in seg_ops[0] else setup2) + seg_ops, "code": x, "model": y, "correspondence": "corruption outcome"}, no_input=True)
                    break
            else:
                res.count("model_agreed_structural")


def check_truncate_then_write(res, ctx, rng):
    """truncation of the ACTIVE file inside / at the chunk boundaries of a multi-block record, then the database is USED:
    Open (recovery), one more Put, Close, Open, dump.  Whatever recovery leaves of the damaged record must not be glued to the
    records appended later: after the restart every served value was written for its key, the new key is there, and nothing
    that the first Open showed has changed."""
    nblk = rng.choice([2, 3])
    big = "p%d:%d" % (rng.randrange(1, 200), nblk * BLOCK + rng.randrange(-20, 3000))
    cfg = {"fs": 8 << 20, "sync": 0, "bps": 0, "idx": rng.choice([1, 2, 3]), "io": 0, "shards": 4}
    cfgs = engine.open_line("w", cfg).split(" ", 2)[2]
    pre = rng.choice([0, 100, BLOCK - 40, BLOCK - 9])      # the big record starts right away / mid-block / next to a block end
    setup = [engine.open_line("orig", cfg), "put 6b x6f6c64"] + (["put 70 p9:%d" % pre] if pre else []) + ["put 6b " + big, "close"]
    hist = {b"k": {core.fmt_val(b"old"), core.fmt_val(core.val_bytes(big))}, b"p": {core.fmt_val(core.val_bytes("p9:%d" % pre))},
            b"zz": {core.fmt_val(b"\x5a")}}
    base = ctx.scratch.fresh()
    try:
        o0 = run_impl(setup + ["files orig"], base)
    finally:
        ctx.scratch.drop(base)
    sz = int(o0[-1].rsplit(":", 1)[1]) if o0[-1].startswith("files ") and ":" in o0[-1] else 0
    if sz <= BLOCK:
        return
    cuts = set()
    for b in range(BLOCK, sz, BLOCK):
        cuts |= {b - 1, b, b + 1, b + 6, b + 7, b + 8, b + 100}
    cuts |= {sz - 1, sz - 8, rng.randrange(1, sz), rng.randrange(1, sz)}
    cuts = sorted(c for c in cuts if 0 < c < sz)
    ops = list(setup)
    spans = []
    for n in cuts:
        seg = ["cpdir orig w", "trunc w 000000000.data %d" % n, "open w " + cfgs, "dump", "put 7a7a x5a", "close", "open w " + cfgs, "dump", "get 7a7a",
               "fold", "close", "rmdir w"]
        spans.append((len(ops), len(ops) + len(seg), n))
        ops += seg
    b2 = ctx.scratch.fresh()
    try:
        o = run_impl(ops, b2, timeout=300)
    finally:
        ctx.scratch.drop(b2)
    mo = run_model(core.model_ops(ops)) if ctx.model_ok else None
    for a, z, n in spans:
        res.evaluations += 1
        res.count("truncate_then_write")
        seg_ops, seg_out = ops[a:z], o[a:z]
        res.distinct.add("ttw:%d:%d:%s" % (sz, n, seg_out[3] if len(seg_out) > 3 else ""))
        bad = None
        for op, out in zip(seg_ops, seg_out):
            if out.startswith(("panic:", "died", "dead")):
                bad = "%s -> %s" % (op, out)
                break
            if op == "dump":
                bad = served_ok(out, hist)
                if bad:
                    break
        if not bad and seg_out[2] == "ok":
            d1, d2 = seg_out[3], seg_out[7]
            if seg_out[4] != "ok" or seg_out[5] != "ok" or seg_out[6] != "ok":
                bad = "the recovered database does not keep working: put=%s close=%s reopen=%s" % (seg_out[4], seg_out[5], seg_out[6])
            else:
                items1 = set(x for x in d1.split(" ", 2)[2].split(",") if x) if d1.count(" ") >= 2 else set()
                items2 = set(x for x in d2.split(" ", 2)[2].split(",") if x) if d2.count(" ") >= 2 else set()
                if items2 != items1 | {"7a7a=" + core.fmt_val(b"\x5a")}:
                    bad = "after one more Put and a restart the mapping is %s; the first Open showed %s" % (d2[:200], d1[:200])
        if bad:
            res.violation("active file truncated to %d of %d bytes (multi-block record at the end), Open, Put, restart: %s" % (n, sz, bad),
                          {"ops": setup + seg_ops})
            break
        if mo is not None:
            for op, x, y in zip(seg_ops, seg_out, mo[a:z]):
                if y != "?" and x != y:
                    res.violation("correspondence broke after truncating the active file to %d bytes at `%s`: code=%s model=%s" % (n, op, x[:200], y[:200]),
                                  {"ops": setup + seg_ops, "code": x, "model": y, "correspondence": "corruption outcome"}, no_input=True)
                    break
            else:
                res.count("model_agreed_truncate_then_write")
