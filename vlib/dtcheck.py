"""C19: command sequences for the redis-style layer and an in-memory reference."""


class Ref:
    """reference types; replies follow the library's documented conventions"""

    def __init__(self):
        self.m = {}
        self.expired_next = set()

    def live(self, k):
        o = self.m.get(k)
        if o is None:
            return None
        if o[0] == "str" and o[2] == "expired":
            return None
        return o

    def step(self, f):
        op = f[0]
        k = bytes.fromhex(f[1]) if f[1] != "-" else b""
        if not k:
            return "err:keyempty" if op not in ("dt.type",) else "err:keyempty"
        o = self.live(k)
        typ = {"hash": 1, "set": 2, "list": 3, "zset": 4, "str": 0}

        def val(t):
            return None if t == "nil" else (b"" if t == "-" else bytes.fromhex(t[1:]))

        def fb(v):
            return "nil" if v is None else ("-" if v == b"" else "x" + v.hex())
        if op == "dt.set":
            v = val(f[2])
            if v is None:
                return "ok"
            self.m[k] = ["str", v, f[3]]
            return "ok"
        if op == "dt.get":
            raw = self.m.get(k)
            if raw is None:
                return "notfound"
            if raw[0] != "str":
                return "err:wrongtype"
            if raw[2] == "expired":
                return "nil"
            return fb(raw[1])
        if op == "dt.del":
            self.m.pop(k, None)
            return "ok"
        if op == "dt.type":
            return "notfound" if o is None else str(typ[o[0]])
        kind = {"dt.hset": "hash", "dt.hget": "hash", "dt.hdel": "hash", "dt.sadd": "set", "dt.sismember": "set", "dt.srem": "set",
                "dt.lpush": "list", "dt.rpush": "list", "dt.lpop": "list", "dt.rpop": "list", "dt.zadd": "zset", "dt.zscore": "zset"}[op]
        if o is not None and o[0] != kind:
            return "err:wrongtype"
        creating = op in ("dt.hset", "dt.sadd", "dt.lpush", "dt.rpush", "dt.zadd")
        if o is None:
            if not creating:
                if op in ("dt.hget", "dt.lpop", "dt.rpop"):
                    return "nil"
                if op == "dt.zscore":
                    return "-1"
                return "0"
            o = [kind, {} if kind in ("hash", "zset") else (set() if kind == "set" else [])]
            self.m[k] = o
        c = o[1]
        a = bytes.fromhex(f[2]) if len(f) > 2 and f[2] != "-" and op != "dt.zadd" else b""
        if op == "dt.hset":
            new = a not in c
            c[a] = val(f[3])
            return "1" if new else "0"
        if op == "dt.hget":
            if not c:
                return "nil"
            if a not in c:
                return "notfound"
            return "nil" if c[a] == b"" else fb(c[a])
        if op == "dt.hdel":
            if a in c:
                del c[a]
                return "1"
            return "0"
        if op == "dt.sadd":
            if a in c:
                return "0"
            c.add(a)
            return "1"
        if op == "dt.sismember":
            return "1" if a in c else "0"
        if op == "dt.srem":
            if a in c:
                c.discard(a)
                return "1"
            return "0"
        if op == "dt.lpush":
            c.insert(0, a)
            return str(len(c))
        if op == "dt.rpush":
            c.append(a)
            return str(len(c))
        if op in ("dt.lpop", "dt.rpop"):
            if not c:
                return "nil"
            v = c.pop(0) if op == "dt.lpop" else c.pop()
            return "nil" if v == b"" else fb(v)
        if op == "dt.zadd":
            mem = bytes.fromhex(f[3]) if f[3] != "-" else b""
            new = mem not in c
            if not new and c[mem] == f[2]:
                return "0"
            c[mem] = f[2]
            return "1" if new else "0"
        if op == "dt.zscore":
            if not c:
                return "-1"
            if a not in c:
                return "notfound"
            return c[a]
        return "?"


def sequence(rng, n):
    """commands over a small space of equal-length keys (no internal-key collisions), all five types"""
    keys = ["6b%02x" % i for i in range(rng.choice([4, 6, 8]))]
    fields = ["66%02x" % i for i in range(4)] + ["-"]
    # (canonical shortest decimal forms: the reply of ZScore is strconv.FormatFloat(score, 'f', -1, 64)); pairs of DISTINCT
    # scores that are closer than any sensible tolerance: an update to a nearly equal score is still an update
    scores = ["1", "2.5", "-3", "0.001", "10", "0.3", "0.30000000000000004", "0.0000000001", "0.0000000002", "0", "0.000000000001"]
    ops = ["dt.reset"]
    for _ in range(n):
        k = rng.choice(keys)
        r = rng.random()
        f = rng.choice(fields)
        v = rng.choice(["x01", "x6162", "-", "xe4bda0e5a5bd", "xffffffffffffffffff02", "x00"])
        if r < 0.10:
            ops.append("dt.set %s %s %s" % (k, v, rng.choice(["none", "none", "live", "expired"])))
        elif r < 0.16:
            ops.append("dt.get " + k)
        elif r < 0.22:
            ops.append("dt.del " + k)
        elif r < 0.27:
            ops.append("dt.type " + k)
        elif r < 0.36:
            ops.append("dt.hset %s %s %s" % (k, f, v))
        elif r < 0.42:
            ops.append("dt.hget %s %s" % (k, f))
        elif r < 0.46:
            ops.append("dt.hdel %s %s" % (k, f))
        elif r < 0.54:
            ops.append("dt.sadd %s %s" % (k, f))
        elif r < 0.58:
            ops.append("dt.sismember %s %s" % (k, f))
        elif r < 0.62:
            ops.append("dt.srem %s %s" % (k, f))
        elif r < 0.70:
            ops.append("dt.%spush %s %s" % (rng.choice("lr"), k, f))
        elif r < 0.78:
            ops.append("dt.%spop %s" % (rng.choice("lr"), k))
        elif r < 0.88:
            # zset members of one fixed length (no member/score key clash)
            m = rng.choice(["6d61", "6d62", "6d63"])
            if rng.random() < 0.3:
                # the same member twice in a row, the second time with the same or a barely different score, then read it
                a, b = rng.choice([("0.3", "0.30000000000000004"), ("0.0000000001", "0.0000000002"), ("0", "0.000000000001"),
                                   ("2.5", "2.5"), ("1", "1.0000000000000002")])
                if rng.random() < 0.5:
                    a, b = b, a
                ops += ["dt.zadd %s %s %s" % (k, a, m), "dt.zadd %s %s %s" % (k, b, m), "dt.zscore %s %s" % (k, m)]
            else:
                ops.append("dt.zadd %s %s %s" % (k, rng.choice(scores), m))
        elif r < 0.94:
            ops.append("dt.zscore %s %s" % (k, rng.choice(["6d61", "6d62", "6d63"])))
        elif r < 0.97:
            ops.append("dt.restart %d %d" % (rng.choice([1, 2, 3]), rng.choice([0, 0, 1])))
        else:
            ops.append("dt.get -")
    ops.append("dt.close")
    return ops


def expected(ops):
    ref = Ref()
    exp = []
    for op in ops:
        f = op.split()
        if f[0] in ("dt.reset", "dt.restart", "dt.close", "dt.now"):
            exp.append("ok")
            continue
        if f[0] == "dt.get" and f[1] == "-":
            exp.append("err:keyempty")
            continue
        exp.append(ref.step(f))
    return exp
