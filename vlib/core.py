"""Shared infrastructure of the xixi-kv verification checks (stdlib only).

bin/check <id> <tier> drives, for one property:
  1. regeneration of the Lean facts from /repo and the harness build (-tags verif)
  2. the Lean obligations (lake build of Properties/<id> + axiom audit)
  3. the correspondence (real engine vs compiled Lean model on the same op lines)
  4. the property's direct oracle on the real engine's output
and writes evidence/<id>.json.
"""
import fcntl
import hashlib
import json
import os
import random
import re
import shutil
import subprocess
import sys
import tempfile
import time
import zlib

VERIF = os.path.dirname(os.path.dirname(os.path.abspath(__file__)))
REPO = os.environ.get("VERIF_REPO", "/repo")
LEAN = os.path.join(VERIF, "lean")
HARNESS = os.path.join(VERIF, "harness")
XKV = os.path.join(HARNESS, "bin", "xkv")
XKV_RACE = os.path.join(HARNESS, "bin", "xkv-race")
DRIVER = os.path.join(LEAN, ".lake", "build", "bin", "driver")
SCRATCH_ROOT = os.environ.get("VERIF_SCRATCH", os.path.join(VERIF, ".scratch"))

GOENV = dict(os.environ, GOFLAGS="-mod=mod", GOPROXY="off", GOSUMDB="off", GOTOOLCHAIN="local",
             CGO_ENABLED=os.environ.get("CGO_ENABLED", "1"))

ALLOWED_AXIOMS = {"propext", "Classical.choice", "Quot.sound"}
FORBIDDEN = re.compile(r"\b(sorry|admit|native_decide|bv_decide|implemented_by|unsafe)\b|^axiom\s|maxHeartbeats\s+0")


def log(*a):
    print(*a, file=sys.stderr, flush=True)


# ---------------------------------------------------------------- locking / building

class FileLock:
    def __init__(self, name):
        os.makedirs(SCRATCH_ROOT, exist_ok=True)
        self.path = os.path.join(SCRATCH_ROOT, name + ".lock")

    def __enter__(self):
        self.f = open(self.path, "w")
        fcntl.flock(self.f, fcntl.LOCK_EX)
        return self

    def __exit__(self, *a):
        fcntl.flock(self.f, fcntl.LOCK_UN)
        self.f.close()


def tree_hash(paths, exts):
    h = hashlib.sha256()
    for root in paths:
        for d, dirs, files in os.walk(root):
            dirs[:] = sorted(x for x in dirs if x not in (".git", ".lake", "bin", ".scratch"))
            for f in sorted(files):
                if f.endswith(exts):
                    p = os.path.join(d, f)
                    h.update(p.encode())
                    with open(p, "rb") as fh:
                        h.update(fh.read())
    return h.hexdigest()


def build_harness(race=False):
    """go build -tags verif against REPO's working tree (always; go's own cache makes it cheap)."""
    with FileLock("harness-build"):
        gomod = os.path.join(HARNESS, "go.mod")
        want = "replace github.com/XiXi-2024/xixi-kv => %s\n" % REPO
        txt = open(gomod).read()
        new = re.sub(r"replace github.com/XiXi-2024/xixi-kv => .*\n", want, txt)
        if new != txt:
            open(gomod, "w").write(new)
        shutil.copyfile(os.path.join(REPO, "go.sum"), os.path.join(HARNESS, "go.sum"))
        out = XKV_RACE if race else XKV
        cmd = ["go", "build", "-tags", "verif"] + (["-race"] if race else []) + ["-o", out, "./cmd/xkv"]
        r = subprocess.run(cmd, cwd=HARNESS, env=GOENV, capture_output=True, text=True)
        if r.returncode != 0:
            return False, r.stdout + r.stderr
        return True, ""


def run_extract():
    """regenerate lean/XixiKV/Generated/*.lean from REPO (written only when changed)."""
    with FileLock("harness-build"):
        exe = os.path.join(HARNESS, "bin", "extract")
        r = subprocess.run(["go", "build", "-o", exe, "./cmd/extract"], cwd=HARNESS, env=GOENV,
                           capture_output=True, text=True)
        if r.returncode != 0:
            return False, r.stdout + r.stderr
        r = subprocess.run([exe, REPO, os.path.join(LEAN, "XixiKV", "Generated")], capture_output=True, text=True)
        if r.returncode != 0:
            return False, r.stdout + r.stderr
        return True, r.stdout


def run_trans():
    """regenerate lean/XixiKV/Generated/Trans.lean: mechanical Go -> Lean translation of the whitelisted pure functions.
    On a construct outside its subset the translator writes a stub that does not elaborate, so the equality theorems
    (Proofs/TransEq.lean and the property theorems that restate them) stop checking."""
    with FileLock("harness-build"):
        exe = os.path.join(HARNESS, "bin", "trans")
        r = subprocess.run(["go", "build", "-o", exe, "./cmd/trans"], cwd=HARNESS, env=GOENV, capture_output=True, text=True)
        if r.returncode != 0:
            return False, r.stdout + r.stderr
        r = subprocess.run([exe, REPO, os.path.join(LEAN, "XixiKV", "Generated", "Trans.lean")], capture_output=True, text=True)
        return r.returncode == 0, r.stdout + r.stderr


def lake_build(targets, timeout=3000):
    with FileLock("lake-build"):
        t0 = time.time()
        r = subprocess.run(["lake", "build"] + targets, cwd=LEAN, capture_output=True, text=True, timeout=timeout)
        return r.returncode == 0, r.stdout + r.stderr, time.time() - t0


def lean_sources_clean():
    """forbidden words outside comments in the Lean sources."""
    hits = []
    for d, dirs, files in os.walk(LEAN):
        dirs[:] = [x for x in dirs if x != ".lake"]
        for f in files:
            if not f.endswith(".lean"):
                continue
            p = os.path.join(d, f)
            src = open(p).read()
            # strip block comments and line comments
            src = re.sub(r"/-.*?-/", lambda m: "\n" * m.group(0).count("\n"), src, flags=re.S)
            for i, line in enumerate(src.split("\n"), 1):
                line = re.sub(r"--.*", "", line)
                line = re.sub(r'"[^"]*"', '""', line)
                if FORBIDDEN.search(line):
                    hits.append("%s:%d: %s" % (os.path.relpath(p, LEAN), i, line.strip()))
    return hits


def audit_axioms(module, theorems):
    """#print axioms for each theorem (through a scratch file, not committed); returns {thm: [axioms]}."""
    os.makedirs(SCRATCH_ROOT, exist_ok=True)
    fd, path = tempfile.mkstemp(suffix=".lean", dir=SCRATCH_ROOT)
    with os.fdopen(fd, "w") as f:
        f.write("import %s\n" % module)
        for t in theorems:
            f.write("#print axioms %s\n" % t)
    try:
        r = subprocess.run(["lake", "env", "lean", path], cwd=LEAN, capture_output=True, text=True, timeout=900)
    finally:
        os.unlink(path)
    out = r.stdout + r.stderr
    res = {}
    cur = None
    for m in re.finditer(r"'([^\n]+?)' (depends on axioms: \[([^\]]*)\]|does not depend on any axioms)", out, flags=re.S):
        name = m.group(1)
        axs = [a.strip() for a in (m.group(3) or "").replace("\n", " ").split(",") if a.strip()]
        res[name] = axs
    return res, out, r.returncode


def property_modules(pid):
    """Lean modules holding the property theorems of <pid>: Properties/<pid>.lean plus any
    Properties/<pid><Suffix>.lean (suffix starting with a capital letter, e.g. C01History.lean)."""
    d = os.path.join(LEAN, "XixiKV", "Properties")
    mods = []
    if os.path.exists(os.path.join(d, pid + ".lean")):
        mods.append(pid)
    for f in sorted(os.listdir(d)) if os.path.isdir(d) else []:
        m = re.match(r"^(%s[A-Z]\w*)\.lean$" % re.escape(pid), f)
        if m:
            mods.append(m.group(1))
    return ["XixiKV.Properties." + m for m in mods]


def _theorems_of_file(p):
    src = open(p).read()
    src = re.sub(r"/-.*?-/", "", src, flags=re.S)
    ns = []
    names = []
    for line in src.split("\n"):
        line = re.sub(r"--.*", "", line)
        m = re.match(r"\s*namespace\s+(\S+)", line)
        if m:
            ns.append(m.group(1))
            continue
        m = re.match(r"\s*end\s+(\S+)", line)
        if m and ns and ns[-1] == m.group(1):
            ns.pop()
            continue
        m = re.match(r"\s*(?:@\[[^\]]*\]\s*)?(?:private\s+|protected\s+)?theorem\s+([^\s:({\[]+)", line)
        if m:
            names.append(".".join(ns + [m.group(1)]))
    return names


def property_theorems(pid):
    """theorem names declared in the property modules of <pid> (namespace-qualified)."""
    names = []
    for mod in property_modules(pid):
        p = os.path.join(LEAN, *mod.split(".")) + ".lean"
        names += _theorems_of_file(p)
    return names


# ---------------------------------------------------------------- values

_PAT_MAX = 0
_PAT_BASE = b""


def _pat_base(n):
    global _PAT_MAX, _PAT_BASE
    if n > _PAT_MAX:
        m = max(n, 1 << 16, _PAT_MAX * 2)
        _PAT_BASE = bytes(((i * i * 7 + i * 13 + (i >> 8)) & 0xFF) for i in range(m))
        _PAT_MAX = m
    return _PAT_BASE


_TABLES = {}


def pat_bytes(seed, n):
    base = _pat_base(n)[:n]
    s = (seed * 131) & 0xFF
    if s == 0:
        return base
    t = _TABLES.get(s)
    if t is None:
        t = bytes(((b + s) & 0xFF) for b in range(256))
        _TABLES[s] = t
    return base.translate(t)


def val_bytes(tok):
    if tok == "-" or tok == "nil":
        return b""
    if tok.startswith("x"):
        return bytes.fromhex(tok[1:])
    if tok.startswith("p"):
        s, n = tok[1:].split(":")
        return pat_bytes(int(s), int(n))
    raise ValueError(tok)


def fmt_val(b):
    return "v%d:%08x" % (len(b), zlib.crc32(b) & 0xFFFFFFFF)


def val_len(tok):
    if tok in ("-", "nil"):
        return 0
    if tok.startswith("x"):
        return (len(tok) - 1) // 2
    return int(tok.split(":")[1])


# ---------------------------------------------------------------- running engines

import threading
_SCRATCH_LOCK = threading.Lock()


class Scratch:
    """per-run scratch directory (removed on exit); never under /tmp for registered commands."""

    def __init__(self, tag):
        os.makedirs(SCRATCH_ROOT, exist_ok=True)
        self.dir = tempfile.mkdtemp(prefix=tag + "-", dir=SCRATCH_ROOT)
        self.n = 0

    def fresh(self):
        with _SCRATCH_LOCK:
            self.n += 1
            n = self.n
        d = os.path.join(self.dir, "w%d" % n)
        os.makedirs(d)
        return d

    def drop(self, d):
        shutil.rmtree(d, ignore_errors=True)

    def close(self):
        shutil.rmtree(self.dir, ignore_errors=True)


def run_impl(ops, base, timeout=120, exe=None, env=None, sub="run"):
    """run the real engine on op lines; returns list of output lines (padded with 'died' when the process died)."""
    exe = exe or XKV
    e = dict(os.environ, GOMEMLIMIT="3GiB")
    if env:
        e.update(env)
    inp = "\n".join(ops) + "\n"
    try:
        r = subprocess.run([exe, sub, base], input=inp, capture_output=True, text=True, timeout=timeout, env=e)
        out = r.stdout.split("\n")
        if out and out[-1] == "":
            out.pop()
        status = "exit%d" % r.returncode if r.returncode != 0 else "ok"
        stderr = r.stderr
    except subprocess.TimeoutExpired as ex:
        o = ex.stdout or b""
        if isinstance(o, bytes):
            o = o.decode(errors="replace")
        out = o.split("\n")
        if out and out[-1] == "":
            out.pop()
        status = "timeout"
        stderr = ""
    # nondeterministic / unmodelled choices of the real run become inputs of the model: the order in
    # which Merge visits the older files, the shard a key hashes to, the actual shard count
    global LAST_MERGE_ORDERS
    orders = {}
    for i, o in enumerate(out):
        if i >= len(ops):
            break
        if ops[i] == "merge" and " order=" in o:
            res, order = o.split(" order=", 1)
            out[i] = res
            orders[i] = "merge order=" + order
        elif ops[i].startswith("ix.put ") and " shard=" in o:
            res, sh = o.split(" shard=", 1)
            out[i] = res
            orders[i] = ops[i] + " " + sh
        elif ops[i].startswith("ix.new ") and " cap=" in o:
            res, cap = o.split(" cap=", 1)
            out[i] = res
            orders[i] = "ix.new %s %s" % (ops[i].split()[1], cap)
    LAST_MERGE_ORDERS = orders
    if len(out) < len(ops):
        why = "died:" + status
        m = re.search(r"(fatal error: [^\n]*|panic: [^\n]*|signal [A-Z]+[^\n]*|unexpected fault address[^\n]*)", stderr)
        if m:
            why += ":" + m.group(1).replace(" ", "_")[:80]
        out = out + [why] * (len(ops) - len(out))
    return out


LAST_MERGE_ORDERS = {}


def model_ops(ops, orders=None):
    """op lines for the model: nondeterministic choices of the real run become inputs"""
    orders = LAST_MERGE_ORDERS if orders is None else orders
    return [orders.get(i, op) for i, op in enumerate(ops)]


def run_model(ops, timeout=300):
    inp = "\n".join(ops) + "\n"
    try:
        r = subprocess.run([DRIVER], input=inp, capture_output=True, text=True, timeout=timeout)
    except subprocess.TimeoutExpired:
        return ["model-timeout"] * len(ops)
    out = r.stdout.split("\n")
    if out and out[-1] == "":
        out.pop()
    if len(out) < len(ops):
        out = out + ["model-died:" + (r.stderr.strip().split("\n")[-1] if r.stderr.strip() else "")] * (len(ops) - len(out))
    return out


def parallel_map(fn, items, workers=None):
    """thread-based parallel map (the work is in child processes)."""
    import concurrent.futures as cf
    workers = workers or min(16, os.cpu_count() or 4)
    if workers <= 1 or len(items) <= 1:
        return [fn(x) for x in items]
    with cf.ThreadPoolExecutor(max_workers=workers) as ex:
        return list(ex.map(fn, items))


# ---------------------------------------------------------------- known findings

class Known:
    def __init__(self):
        self.findings = {}  # (pid, key) -> text
        self.fixed = []
        p = os.path.join(VERIF, "known_findings.txt")
        if os.path.exists(p):
            for line in open(p):
                line = line.strip()
                if line.startswith("finding:"):
                    m = re.match(r"finding:\s+property=(\S+)\s+key=(\S+)\s*(.*)", line)
                    if m:
                        self.findings[(m.group(1), m.group(2))] = m.group(3)
                elif line.startswith("fixed:"):
                    self.fixed.append(line)

    def is_known(self, pid, key):
        return (pid, key) in self.findings

    def text(self, pid, key):
        return self.findings.get((pid, key), "")


# ---------------------------------------------------------------- result / evidence

class Result:
    def __init__(self, pid, tier, seed):
        self.pid, self.tier, self.seed = pid, tier, seed
        self.t0 = time.time()
        self.evaluations = 0
        self.distinct = set()
        self.samples = []
        self.dist = {}
        self.violations = []       # dicts {what, replay(ops/outs), key}
        self.known_hits = {}       # key -> what
        self.obligations = []      # names
        self.discharged = []
        self.notes = []
        self.assumptions = []
        self.trusted = []
        self.checker_cmd = ""
        self.extra = {}
        self.known = Known()

    def count(self, key, n=1):
        self.dist[key] = self.dist.get(key, 0) + n

    def case(self, trace_key, nontrivial):
        self.evaluations += 1
        if nontrivial:
            self.distinct.add(hashlib.sha1(trace_key.encode() if isinstance(trace_key, str) else trace_key).hexdigest()[:16])

    def sample(self, s, limit=4):
        if len(self.samples) < limit:
            self.samples.append(s)

    def violation(self, what, replay, key=None, no_input=False):
        """record a violation; a violation whose key is listed in known_findings.txt is a KNOWN-FINDING."""
        if key and self.known.is_known(self.pid, key):
            if key not in self.known_hits:
                self.known_hits[key] = what
            return False
        self.violations.append({"what": what, "replay": replay, "key": key, "no_input": no_input})
        return True

    def finish(self, level="proof", rule=""):
        wall = time.time() - self.t0
        if level == "proof" and (not self.obligations or not self.discharged):
            level = "other"
            self.extra["explanation"] = ("no Lean property file for this id yet: this run compared the real engine with the compiled Lean model "
                                         "(differential correspondence) and evaluated the direct oracle; " + rule)[:2000]
        for key, what in self.known_hits.items():
            print("KNOWN-FINDING: property=%s key=%s %s" % (self.pid, key, self.known.text(self.pid, key) or what))
        cov = {
            "obligations": len(self.obligations),
            "discharged": len(self.discharged),
            "checker_cmd": self.checker_cmd,
            "trusted_base": self.trusted,
            "evaluations": self.evaluations,
            "distinct_nontrivial": len(self.distinct),
            "rule": rule,
            "samples": self.samples[:6] if self.samples else ["(none)"],
            "input_distribution": self.dist,
            "obligation_names": self.obligations,
            "undischarged": [o for o in self.obligations if o not in self.discharged],
            "known_findings_reproduced": sorted(self.known_hits),
            "notes": self.notes,
        }
        cov.update(self.extra)
        ev = {
            "property_id": self.pid,
            "tier": self.tier,
            "seed": self.seed,
            "level": level,
            "coverage": cov,
            "assumptions": self.assumptions,
            "wall_s": round(wall, 2),
            "violations": len(self.violations),
        }
        os.makedirs(os.path.join(VERIF, "evidence"), exist_ok=True)
        with open(os.path.join(VERIF, "evidence", self.pid + ".json"), "w") as f:
            json.dump(ev, f, indent=1, sort_keys=True)
            f.write("\n")
        if not self.violations:
            log("%s %s: pass (%d evaluations, %d distinct nontrivial, %d/%d obligations, %.1fs)" % (
                self.pid, self.tier, self.evaluations, len(self.distinct), len(self.discharged), len(self.obligations), wall))
            return 0
        os.makedirs(os.path.join(VERIF, "replays"), exist_ok=True)
        # one replay file for the first (most specific) violation, all listed inside
        first = next((v for v in self.violations if not v["no_input"]), self.violations[0])
        path = os.path.join(VERIF, "replays", "%s-%d.json" % (self.pid, self.seed))
        with open(path, "w") as f:
            json.dump({"property": self.pid, "tier": self.tier, "seed": self.seed, "first": first,
                       "all": self.violations[:20]}, f, indent=1)
            f.write("\n")
        for v in self.violations[:5]:
            log("violation: " + v["what"])
        tail = " no-failing-input-found" if all(v["no_input"] for v in self.violations) else ""
        print("VIOLATION property=%s replay=%s%s" % (self.pid, path, tail))
        return 1


def rng_for(seed, *tags):
    h = hashlib.sha256(("%d|" % seed + "|".join(str(t) for t in tags)).encode()).digest()
    return random.Random(int.from_bytes(h[:8], "big"))
