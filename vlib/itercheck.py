"""C10 / C14: iterator generators (ARBITRARY Rewind / Next / Seek sequences) and the abstract-cursor oracle."""
from . import core


def key_set(rng, n):
    pres = [b"", b"a", b"ab", b"b", b"\x00", b"\xff", b"k1"]
    ks = set()
    while len(ks) < n:
        p = rng.choice(pres)
        tail = bytes(rng.choice([0, 97, 98, 99, 255, rng.randrange(256)]) for _ in range(rng.choice([0, 1, 1, 2, 3])))
        k = p + tail
        if k:
            ks.add(k)
    return sorted(ks)


import collections
STATS = collections.Counter()      # what kinds of Seek the generated sequences contained (reported by the checks)


class AbsCursor:
    def __init__(self, items, rev, pre=b""):
        its = [kv for kv in items if kv[0].startswith(pre)]
        self.a = sorted(its, key=lambda kv: kv[0], reverse=rev)
        self.rev = rev
        self.i = 0

    def lower(self, k):
        for j, (key, _) in enumerate(self.a):
            if (key <= k) if self.rev else (key >= k):
                return j
        return len(self.a)

    def seek(self, k):
        """Seek never moves a cursor backwards: the lower bound of the target unless that lies behind the cursor;
        nothing on an exhausted cursor (Abs.seek of Model/ShardIter.lean)"""
        if self.i < len(self.a):
            j = self.lower(k)
            if j >= self.i:
                STATS["seek_moves_forward" if j > self.i else "seek_to_current_position"] += 1
                self.i = j
            else:
                STATS["seek_backward_ignored"] += 1
        else:
            STATS["seek_on_exhausted_ignored"] += 1

    def state(self, fmt):
        if self.i < len(self.a):
            return "it %s %s" % (self.a[self.i][0].hex() or "-", fmt(self.a[self.i][1]))
        return "it invalid"


def seek_target(rng, cur, keys):
    """an ARBITRARY target: ahead of the cursor, behind it (a key already passed), the current key, between two
    keys, before the first / after the last key, on a live or an exhausted cursor"""
    for _ in range(20):
        r = rng.random()
        if r < 0.25 and cur.i > 0 and cur.a:
            k = rng.choice(cur.a[:cur.i])[0]                    # a key already passed
            if rng.random() < 0.3:
                k += rng.choice([b"\x00", b"\xff"])
        elif r < 0.5 and cur.a:
            k = rng.choice(cur.a)[0]                            # any key of the (prefix-filtered) snapshot
        elif r < 0.6 and cur.i < len(cur.a):
            k = cur.a[cur.i][0] + rng.choice([b"", b"", b"\x00"])   # the current key / just after it
        elif r < 0.85 and keys:
            k = rng.choice(keys) + rng.choice([b"", b"\x00", b"\xff"])   # any key of the snapshot, prefix or not
        else:
            k = bytes(rng.randrange(256) for _ in range(rng.randrange(0, 3)))
        if k:
            return k
    return None


def index_level(rng, typ, shards, ncalls, nkeys=None):
    """ops for one index + expected outputs from the abstract cursor"""
    ops = ["ix.new %d %d" % (typ, shards)]
    exp = [None]
    m = {}
    if nkeys:
        # a LARGE key set (hundreds of keys in one shard): cursors that fetch their items in batches must not stop early
        keys = sorted(set(bytes([rng.randrange(97, 123) for _ in range(3)]) for _ in range(nkeys)))
        rng.shuffle(keys)
    else:
        keys = key_set(rng, rng.choice([0, 1, 5, 12, 40]))
    n = 0
    for k in keys:
        n += 1
        ops.append("ix.put %s %d" % (k.hex(), n))
        exp.append("old=nil")
        m[k] = n
    for k in rng.sample(keys, len(keys) // 4):
        if rng.random() < 0.5:
            ops.append("ix.del %s" % k.hex())
            exp.append("old=%d" % m.pop(k))
        else:
            n += 1
            ops.append("ix.put %s %d" % (k.hex(), n))
            exp.append("old=%d" % m[k])
            m[k] = n
    ops.append("ix.size")
    exp.append("size %d" % len(m))
    curs = {}
    for cid in ("a", "b"):
        rev = rng.random() < 0.5
        curs[cid] = AbsCursor(list(m.items()), rev)
        ops.append("ixit.new %s %d" % (cid, int(rev)))
        exp.append(curs[cid].state(str))
    for _ in range(ncalls):
        cid = rng.choice(list(curs))
        c = curs[cid]
        r = rng.random()
        if c.i >= len(c.a) and rng.random() < 0.4:
            r = 0.5                 # an exhausted cursor is rewound more often, so that the sequences stay interesting
        if r < 0.45:
            ops.append("ixit.next " + cid)
            if c.i < len(c.a):
                c.i += 1
        elif r < 0.6:
            ops.append("ixit.rewind " + cid)
            c.i = 0
        elif r < 0.9:
            k = seek_target(rng, c, keys)
            if k is None:
                ops.append("ixit.state " + cid)
            else:
                # any target, on any cursor state (live, exhausted, just seeked): several Seeks in a row arise
                # from this branch being taken repeatedly and from the burst below
                ops.append("ixit.seek %s %s" % (cid, k.hex()))
                c.seek(k)
                for _ in range(rng.choice([0, 0, 0, 1, 2])):
                    k2 = seek_target(rng, c, keys)
                    if k2 is not None:
                        exp.append(c.state(str))
                        ops.append("ixit.seek %s %s" % (cid, k2.hex()))
                        c.seek(k2)
        else:
            # writes after creation must not disturb the snapshot
            k = rng.choice(keys) if keys else b"zz"
            n += 1
            if rng.random() < 0.5:
                ops.append("ix.put %s %d" % (k.hex(), n))
                exp.append("old=%s" % (m[k] if k in m else "nil"))
                m[k] = n
            else:
                ops.append("ix.del %s" % k.hex())
                exp.append("old=%s" % (m.pop(k) if k in m else "nil"))
            continue
        exp.append(c.state(str))
    if nkeys:
        # a full walk from the start and one from a Seek target in the middle
        c = curs["a"]
        ops.append("ixit.rewind a")
        c.i = 0
        exp.append(c.state(str))
        for _ in range(len(c.a) + 1):
            ops.append("ixit.next a")
            if c.i < len(c.a):
                c.i += 1
            exp.append(c.state(str))
        c = curs["b"]
        ops.append("ixit.rewind b")
        c.i = 0
        exp.append(c.state(str))
        k = keys[len(keys) // 2]
        ops.append("ixit.seek b %s" % k.hex())
        c.seek(k)
        exp.append(c.state(str))
        for _ in range(len(c.a) + 1):
            ops.append("ixit.next b")
            if c.i < len(c.a):
                c.i += 1
            exp.append(c.state(str))
    return ops, exp


def db_level(rng, cfg_line, ncalls):
    ops = [cfg_line]
    exp = ["ok"]
    keys = key_set(rng, rng.choice([1, 5, 12, 30]))
    m = {}
    seed = rng.randrange(1000)
    for k in keys:
        seed += 1
        tok = "p%d:%d" % (seed, rng.choice([1, 5, 40]))
        ops.append("put %s %s" % (k.hex(), tok))
        exp.append("ok")
        m[k] = core.val_bytes(tok)
    for k in rng.sample(keys, len(keys) // 4):
        ops.append("del %s" % k.hex())
        exp.append("ok")
        m.pop(k)
    curs = {}
    for cid in ("a", "b", "c"):
        rev = rng.random() < 0.5
        pre = rng.choice([b"", b"", b"a", b"ab", b"b", b"\xff", b"zz", b"k"])
        curs[cid] = AbsCursor(list(m.items()), rev, pre)
        ops.append("it.new %s %s %d" % (cid, pre.hex() or "-", int(rev)))
        exp.append(curs[cid].state(core.fmt_val))
    for _ in range(ncalls):
        cid = rng.choice(list(curs))
        c = curs[cid]
        r = rng.random()
        if c.i >= len(c.a) and rng.random() < 0.4:
            r = 0.5
        if r < 0.45:
            ops.append("it.next " + cid)
            if c.i < len(c.a):
                c.i += 1
        elif r < 0.6:
            ops.append("it.rewind " + cid)
            c.i = 0
        elif r < 0.88:
            k = seek_target(rng, c, keys)
            if k is None:
                ops.append("it.state " + cid)
            else:
                ops.append("it.seek %s %s" % (cid, k.hex()))
                c.seek(k)
                for _ in range(rng.choice([0, 0, 0, 1, 2])):
                    k2 = seek_target(rng, c, keys)
                    if k2 is not None:
                        exp.append(c.state(core.fmt_val))
                        ops.append("it.seek %s %s" % (cid, k2.hex()))
                        c.seek(k2)
        else:
            k = rng.choice(keys)
            seed += 1
            if rng.random() < 0.6:
                ops.append("put %s p%d:%d" % (k.hex(), seed, rng.choice([1, 9, 3000])))
            else:
                ops.append("del %s" % k.hex())
            exp.append("ok")
            continue
        exp.append(c.state(core.fmt_val))
    for cid in curs:
        ops.append("it.close " + cid)
        exp.append("ok")
    ops += ["close"]
    exp += ["ok"]
    return ops, exp
