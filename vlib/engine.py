"""Engine-level workload generator, geometry predictor and reference oracle."""
from . import core

BS = 32768
H = 7
MAX_FIN = 70


def uvarint_len(n):
    k = 1
    while n >= 0x80:
        n >>= 7
        k += 1
    return k


def varint_len(n):
    return uvarint_len((n << 1) if n >= 0 else ((-n) << 1) - 1)


def payload_len(klen, vlen, batch=0):
    return 1 + varint_len(klen) + varint_len(vlen) + uvarint_len(batch) + klen + vlen


def est_size(klen, vlen):
    size = 21 + klen + vlen + 10 + 1
    size += H + (size // BS + 1) * H
    return size


def write_geom(size, n):
    """file of logical size `size`, payload of n bytes -> (pad, block, off, occupied, newsize, chunks)"""
    b, o = divmod(size, BS)
    pad = 0
    if o + H >= BS and o != BS:
        pad = BS - o
        b += 1
        o = 0
    written = 0
    chunks = 0
    while written < n:
        w = n - written
        w = min(w, BS - o - H) if written == 0 else min(w, BS - H)
        written += w
        chunks += 1
    occ = chunks * H + n
    return pad, b, o, occ, size + pad + occ, chunks


def vlen_for_end(size, klen, batch, d, extra_blocks=0):
    """value length such that the record appended to a file of `size` bytes ends d bytes after
    (d<=0: before/at) a block boundary; None when impossible."""
    o = size % BS
    if o + H >= BS:
        o = 0
    e = d if d > 0 else BS + d
    for chunks in range(1 + extra_blocks, 4 + extra_blocks):
        if chunks == 1 and e < o + H + 1:
            continue
        if chunks > 1 and e < H + 1:
            continue
        total = (chunks - 1) * BS + e - o
        pl = total - H * chunks
        base = pl - klen - 1 - varint_len(klen) - uvarint_len(batch)
        for v in range(max(0, base - 6), max(0, base) + 1):
            if payload_len(klen, v, batch) == pl:
                g = write_geom(size, pl)
                if g[5] == chunks and (g[4] % BS) == (d % BS):
                    return v
    return None


CONFIG_GRID = {
    "idx": [1, 2, 3],
    "shards": [1, 2, 3, 16, 1024],
    "io": [0, 1],
    "fs": [4096, 65536, 1 << 20],
    "sync": [0, 1, 2],
}


def rand_cfg(rng, io=None, fs=None):
    sync = rng.choice([0, 0, 1, 2])
    return {
        "fs": fs if fs is not None else rng.choice([4096, 20000, 65536, 65536, 200000, 1 << 20]),
        "sync": sync,
        "bps": rng.choice([1, 100, 4096, 1 << 20]) if sync == 2 else rng.choice([0, 4096]),
        "idx": rng.choice([1, 2, 3]),
        "io": io if io is not None else rng.choice([0, 0, 0, 1]),
        "shards": rng.choice([1, 2, 3, 16, 1024, 5000]),
    }


_COLL = {}


def colliding_pairs(seed, n):
    """n pairs of distinct 16-byte keys with equal xxhash64 (shard choice, batch staging index), from `xkv collide`"""
    import subprocess
    k = (seed, n)
    if k not in _COLL:
        r = subprocess.run([core.XKV, "collide", str(seed), str(n)], capture_output=True, text=True)
        _COLL[k] = [tuple(bytes.fromhex(x) for x in l.split()) for l in r.stdout.split("\n") if len(l.split()) == 2]
    return _COLL[k]


def open_line(d, cfg):
    return "open %s %d %d %d %d %d %d" % (d, cfg["fs"], cfg["sync"], cfg["bps"], cfg["idx"], cfg["io"], cfg["shards"])


class Gen:
    """workload generator with a predicted active-file size (used only to steer value lengths onto
    block boundaries and rotation thresholds; a wrong prediction costs precision, not soundness)."""

    def __init__(self, rng, cfg, nkeys=8, d="d", weights=None, max_val=3 * BS, batch_ids=True, collisions=0):
        self.rng = rng
        self.cfg = dict(cfg)
        self.d = d
        self.ops = []
        self.keys = self.make_keys(nkeys)
        if collisions:
            # keys with EQUAL xxhash64: same index shard, same bucket of a batch's staging index
            for a, b in colliding_pairs(rng.randrange(1 << 30), collisions):
                self.keys += [a, b]
        self.size = 0          # predicted logical size of the active file
        self.seed = 0
        self.batch_open = False
        self.batch_no = 0
        self.batch_ids = batch_ids
        self.max_val = max_val
        self.iter_no = 0
        self.w = {"put": 30, "get": 14, "del": 8, "batch": 6, "sync": 2, "merge": 2, "keys": 2, "fold": 1,
                  "dump": 3, "stat": 3, "reopen": 2, "getabsent": 2, "emptykey": 1}
        if weights:
            self.w.update(weights)
        self.badopen = self.w.pop("badopen", 0)     # restarts sometimes try a configuration checkOptions rejects first

    def make_keys(self, n):
        rng = self.rng
        ks = set()
        shapes = [lambda: bytes([rng.randrange(97, 123)]),
                  lambda: bytes(rng.randrange(97, 100) for _ in range(rng.randrange(1, 4))),
                  lambda: bytes(rng.randrange(256) for _ in range(rng.randrange(1, 6))),
                  lambda: b"k" + bytes(rng.randrange(48, 58) for _ in range(3)),
                  lambda: bytes([0x80 | rng.randrange(128), rng.randrange(128)]),
                  lambda: bytes(rng.randrange(256) for _ in range(rng.choice([40, 130, 300])))]
        while len(ks) < n:
            ks.add(rng.choice(shapes)())
        return sorted(ks)

    def emit(self, line):
        self.ops.append(line)

    def key(self):
        return self.rng.choice(self.keys).hex()

    def next_seed(self):
        self.seed += 1
        return self.seed

    def predict_append(self, klen, vlen, batch=0):
        fs = self.cfg["fs"]
        if self.size + est_size(klen, vlen) > fs:
            self.size = 0
        g = write_geom(self.size, payload_len(klen, vlen, batch))
        self.size = g[4]

    def value_for(self, klen, batch=0):
        rng = self.rng
        r = rng.random()
        fs = self.cfg["fs"]
        if r < 0.08:
            return "-", 0
        if r < 0.13:
            return "nil", 0
        if r < 0.45:
            n = rng.choice([1, 2, 3, 7, 10, 50, 100, 127, 128, 300, 1000])
        elif r < 0.70:
            # end within +-8 of a block boundary
            size = self.size if self.size + est_size(klen, 1) <= fs else 0
            n = vlen_for_end(size, klen, batch, rng.randrange(-8, 9), extra_blocks=rng.choice([0, 0, 1]))
            if n is None or n > self.max_val:
                n = rng.randrange(1, 2000)
        elif r < 0.80:
            # around the rotation threshold
            remaining = fs - self.size
            n = max(0, remaining - est_size(klen, 0) + rng.randrange(-3, 4))
            if n > self.max_val:
                n = rng.randrange(1, 3000)
        elif r < 0.90:
            n = rng.randrange(BS - 40, min(self.max_val, 3 * BS) + 1) if self.max_val > BS else rng.randrange(1, self.max_val + 1)
        else:
            n = min(self.max_val, fs + rng.randrange(1, 2000))  # exceeds the file-size limit
        return "p%d:%d" % (self.next_seed(), n), n

    def step(self):
        rng = self.rng
        kinds = list(self.w)
        k = rng.choices(kinds, [self.w[x] for x in kinds])[0]
        getattr(self, "g_" + k)()

    def g_put(self):
        k = self.key()
        v, n = self.value_for(len(k) // 2)
        self.emit("put %s %s" % (k, v))
        self.predict_append(len(k) // 2, n)

    def g_get(self):
        self.emit("get %s" % self.key())

    def g_getabsent(self):
        self.emit("get %s" % (self.rng.choice(self.keys) + b"\x00zz").hex())

    def g_emptykey(self):
        self.emit(self.rng.choice(["put - x00", "get -", "del -"]))

    def g_del(self):
        k = self.key()
        self.emit("del %s" % k)
        self.predict_append(len(k) // 2, 0)

    def g_sync(self):
        self.emit("sync")

    def g_merge(self):
        self.emit("merge")
        self.size = 0

    def g_keys(self):
        self.emit("keys")

    def g_fold(self):
        self.emit("fold")

    def g_dump(self):
        self.emit("dump")

    def g_stat(self):
        self.emit("stat")
        self.emit("files " + self.d)

    def g_reopen(self, cfg=None):
        self.emit("dump")
        self.emit("close")
        if cfg is None:
            cfg = rand_cfg(self.rng)
            if self.rng.random() < 0.5:
                cfg["fs"] = self.cfg["fs"]
        self.cfg = cfg
        if self.badopen and self.rng.random() < 0.3:
            # checkOptions: a rejected configuration neither opens nor touches nor locks the directory
            bad = dict(cfg)
            bad.update(self.rng.choice([{"fs": 0}, {"sync": 2, "bps": 0}, {"bps": (16 << 20) + 1}, {"sync": 1, "bps": 1 << 30}]))
            self.emit(open_line(self.d, bad))
            self.emit("files " + self.d)
        self.emit(open_line(self.d, cfg))
        self.emit("dump")
        self.emit("stat")
        self.size = -1 if False else self.size

    def g_batch(self, nops=None, big=False):
        rng = self.rng
        self.batch_no += 1
        bid = 7000000 + self.batch_no * 1009
        sync = rng.choice([0, 0, 1])
        if self.batch_ids:
            self.emit("bnew %d %d" % (sync, bid))
        else:
            self.emit("bnew %d" % sync)
            bid = 1 << 60
        n = nops if nops is not None else rng.choice([0, 1, 2, 3, 5, 8, 20])
        for _ in range(n):
            r = rng.random()
            k = self.key()
            if r < 0.55:
                v, ln = self.value_for(len(k) // 2, bid)
                if big and rng.random() < 0.5:
                    v = "p%d:%d" % (self.next_seed(), rng.randrange(self.cfg["fs"] // 3, self.cfg["fs"]))
                self.emit("bput %s %s" % (k, v))
            elif r < 0.75:
                self.emit("bdel %s" % k)
            else:
                self.emit("bget %s" % k)
        self.emit("bcommit")
        if rng.random() < 0.15:
            # use after commit
            self.emit(rng.choice(["bput %s x01" % self.key(), "bget %s" % self.key(), "bdel %s" % self.key(), "bcommit"]))
        self.emit("bdrop")
        self.size = 0  # prediction lost after a batch (resynchronises at the next rotation)

    def history(self, nsteps):
        self.emit(open_line(self.d, self.cfg))
        for _ in range(nsteps):
            self.step()
        self.emit("dump")
        self.emit("stat")
        self.emit("close")
        return self.ops


# ---------------------------------------------------------------- reference oracle

class RefOracle:
    """Reference map semantics for one op/out transcript.  Returns a list of (index, message)."""

    ALLOWED_MERGE_ERR = ("err:mergeids",)

    def __init__(self, check_stat_keys=True, allow_merge_err=True):
        self.m = {}
        self.maps = {}           # directory name -> mapping (for backups / copies)
        self.cur = None
        self.stage = None        # list of (k, v|None) while a batch is open
        self.committed = False
        self.open = False
        self.problems = []
        self.last_dump = None    # dump text recorded before close
        self.check_stat_keys = check_stat_keys
        self.allow_merge_err = allow_merge_err
        self.features = set()

    def bad(self, i, msg):
        self.problems.append((i, msg))

    def view(self):
        return self.m

    def exp_dump(self):
        ks = sorted(self.m)
        return "dump n=%d %s" % (len(ks), ",".join("%s=%s" % (k.hex(), core.fmt_val(self.m[k])) for k in ks))

    def exp_keys(self):
        return "keys " + ",".join(k.hex() for k in sorted(self.m))

    def exp_fold(self):
        return "fold " + ",".join("%s=%s" % (k.hex(), core.fmt_val(self.m[k])) for k in sorted(self.m))

    def feed(self, i, op, out):
        f = op.split()
        o = f[0]
        if out.startswith(("panic:", "died", "dead", "bad:", "model-")):
            self.bad(i, "%s -> %s" % (op, out))
            return
        if o == "open":
            fs, sy, bps = int(f[2]), int(f[3]), int(f[4])
            if fs <= 0 or bps > (16 << 20) or (sy == 2 and bps == 0):
                if out != "err:options":
                    self.bad(i, "open with options that checkOptions rejects -> " + out)
                self.features.add("open-rejected-options")
                return
            if out != "ok":
                self.bad(i, "open failed: " + out)
            else:
                self.open = True
                self.stage = None
                self.maps.setdefault(self.cur, {}).clear()
                self.maps[self.cur].update(self.m)
                self.cur = f[1]
                self.m = dict(self.maps.get(self.cur, {}))
            return
        if o == "backup":
            if out != "ok":
                self.bad(i, "backup failed: " + out)
            else:
                self.maps[f[1]] = dict(self.m)
                self.features.add("backup")
            return
        if o == "cpdir":
            self.maps[self.cur] = dict(self.m)
            self.maps[f[2]] = dict(self.maps.get(f[1], {}))
            return
        if o == "checkret":
            if not out.endswith("changed=0"):
                self.bad(i, "a slice returned by Get changed later: " + out)
            return
        if o == "close":
            if out != "ok":
                self.bad(i, "close failed: " + out)
            self.open = False
            self.stage = None
            return
        if o in ("put", "get", "del", "bput", "bget", "bdel") and f[1] == "-":
            if out != "err:keyempty":
                self.bad(i, "%s -> %s, expected err:keyempty" % (op, out))
            return
        if o == "put":
            if out != "ok":
                self.bad(i, "%s -> %s" % (op, out))
                return
            self.m[bytes.fromhex(f[1])] = core.val_bytes(f[2])
            self.features.add("put")
            if core.val_len(f[2]) > BS:
                self.features.add("multiblock")
        elif o == "get":
            k = bytes.fromhex(f[1])
            exp = core.fmt_val(self.m[k]) if k in self.m else "notfound"
            if out != exp:
                self.bad(i, "%s -> %s, expected %s" % (op, out, exp))
            self.features.add("get-hit" if k in self.m else "get-miss")
        elif o == "del":
            if out != "ok":
                self.bad(i, "%s -> %s" % (op, out))
                return
            if self.m.pop(bytes.fromhex(f[1]), None) is not None:
                self.features.add("del-hit")
        elif o == "keys":
            if out != self.exp_keys():
                self.bad(i, "keys -> %s, expected %s" % (out[:200], self.exp_keys()[:200]))
        elif o == "fold":
            if len(f) == 1 and out != self.exp_fold():
                self.bad(i, "fold -> %s, expected %s" % (out[:200], self.exp_fold()[:200]))
        elif o == "dump":
            if out != self.exp_dump():
                self.bad(i, "dump -> %s, expected %s" % (out[:300], self.exp_dump()[:300]))
        elif o == "stat":
            if self.check_stat_keys:
                mm = out.split()
                if len(mm) < 2 or mm[1] != "keys=%d" % len(self.m):
                    self.bad(i, "stat -> %s, expected keys=%d" % (out, len(self.m)))
        elif o in ("sync",):
            if out != "ok":
                self.bad(i, "%s -> %s" % (op, out))
        elif o == "merge":
            if out != "ok":
                if self.allow_merge_err and out in self.ALLOWED_MERGE_ERR:
                    self.features.add("merge-refused")
                else:
                    self.bad(i, "merge -> %s" % out)
            else:
                self.features.add("merge")
        elif o == "bnew":
            self.stage = []
            self.committed = False
            self.features.add("batch")
        elif o == "bput":
            if self.committed:
                if out != "err:committed":
                    self.bad(i, "%s after commit -> %s, expected err:committed" % (op, out))
                return
            if out != "ok":
                self.bad(i, "%s -> %s" % (op, out))
                return
            self.stage.append((bytes.fromhex(f[1]), core.val_bytes(f[2])))
        elif o == "bdel":
            if self.committed:
                if out != "err:committed":
                    self.bad(i, "%s after commit -> %s, expected err:committed" % (op, out))
                return
            if out != "ok":
                self.bad(i, "%s -> %s" % (op, out))
                return
            self.stage.append((bytes.fromhex(f[1]), None))
        elif o == "bget":
            if self.committed:
                if out != "err:committed":
                    self.bad(i, "%s after commit -> %s, expected err:committed" % (op, out))
                return
            k = bytes.fromhex(f[1])
            exp = None
            for kk, vv in reversed(self.stage):
                if kk == k:
                    exp = "notfound" if vv is None else core.fmt_val(vv)
                    self.features.add("bget-staged")
                    break
            if exp is None:
                exp = core.fmt_val(self.m[k]) if k in self.m else "notfound"
                if k in self.m:
                    self.features.add("bget-base")
            if out != exp:
                self.bad(i, "%s -> %s, expected %s" % (op, out, exp))
        elif o == "bcommit":
            if self.committed:
                if out != "err:committed":
                    self.bad(i, "second %s -> %s, expected err:committed" % (op, out))
                return
            if out != "ok":
                self.bad(i, "%s -> %s" % (op, out))
                return
            for k, v in self.stage:
                if v is None:
                    self.m.pop(k, None)
                else:
                    self.m[k] = v
            if self.stage:
                self.features.add("batch-commit")
            self.committed = True
        elif o == "bdrop":
            self.stage = None


def run_oracle(ops, outs, **kw):
    r = RefOracle(**kw)
    for i, (op, out) in enumerate(zip(ops, outs)):
        r.feed(i, op, out)
    return r


def shrink_ops(ops, fails, budget=60):
    """delta-debugging over op lines: keep a subsequence that still fails. `fails(ops)->bool`."""
    cur = list(ops)
    n = 2
    tries = 0
    while len(cur) >= 2 and tries < budget:
        chunk = max(1, len(cur) // n)
        reduced = False
        for start in range(0, len(cur), chunk):
            cand = cur[:start] + cur[start + chunk:]
            tries += 1
            if cand and fails(cand):
                cur = cand
                n = max(n - 1, 2)
                reduced = True
                break
            if tries >= budget:
                break
        if not reduced:
            if chunk == 1:
                break
            n = min(len(cur), n * 2)
    return cur
