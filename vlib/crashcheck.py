"""Crash enumeration: run `xkv crash`, evaluate the prefix / atomicity / adoption oracles on every
crash image, compare the real recovery with the Lean model's recovery of the same bytes, and check
the sync policy on the I/O event log (C03, C04, C07, C13)."""
import json
import os
import subprocess

from . import core, engine
from .core import run_model

MUT = ("put", "del", "bcommit")


def run_crash(ctx, ops, mode="io", cuts="few", level2=False, dumpfiles=True, reader=None, from_op=0, timeout=600, postmerge=False):
    base = ctx.scratch.fresh()
    try:
        opsf = os.path.join(base, "w.ops")
        with open(opsf, "w") as f:
            f.write("\n".join(ops) + "\n")
        args = [core.XKV, "crash", base, opsf, mode, "cuts=" + cuts, "from=%d" % from_op]
        if level2:
            args.append("level2=1")
        if postmerge:
            args.append("postmerge=1")
        if dumpfiles:
            args.append("dumpfiles=1")
        if reader:
            args.append("reader=" + reader.replace(" ", ","))
        try:
            r = subprocess.run(args, capture_output=True, text=True, timeout=timeout, env=dict(os.environ, GOMEMLIMIT="3GiB"))
            out, err, rc = r.stdout, r.stderr, r.returncode
        except subprocess.TimeoutExpired as e:
            out = e.stdout.decode() if isinstance(e.stdout, bytes) else (e.stdout or "")
            err, rc = "timeout", -1
        recs = []
        for line in out.split("\n"):
            if line.startswith("{"):
                try:
                    recs.append(json.loads(line))
                except ValueError:
                    pass
        return recs, err, rc
    finally:
        ctx.scratch.drop(base)


def reference_states(ops):
    """states[j] = mapping after the first j acknowledged mutations (a batch commit is one mutation);
    mcount[i] = number of mutations among ops[0..i-1]; ismut[i]"""
    m = {}
    states = [dict(m)]
    mcount = []
    ismut = []
    stage = None
    for op in ops:
        f = op.split()
        mcount.append(len(states) - 1)
        mut = False
        if f[0] == "put" and f[1] != "-":
            m[bytes.fromhex(f[1])] = core.val_bytes(f[2])
            mut = True
        elif f[0] == "del" and f[1] != "-":
            mut = bytes.fromhex(f[1]) in m
            m.pop(bytes.fromhex(f[1]), None)
        elif f[0] == "bnew":
            stage = []
        elif f[0] == "bput" and stage is not None and f[1] != "-":
            stage.append((bytes.fromhex(f[1]), core.val_bytes(f[2])))
        elif f[0] == "bdel" and stage is not None and f[1] != "-":
            stage.append((bytes.fromhex(f[1]), None))
        elif f[0] == "bcommit" and stage is not None:
            # a staged delete of a key that is absent everywhere is not written at all, but the
            # mapping is the same either way
            for k, v in stage:
                if v is None:
                    m.pop(k, None)
                else:
                    m[k] = v
            mut = bool(stage)
            stage = None
        if mut:
            states.append(dict(m))
        ismut.append(mut)
    return states, mcount, ismut


def fmt_state(m, extra=None):
    mm = dict(m)
    if extra:
        mm.update(extra)
    ks = sorted(mm)
    return "dump n=%d %s" % (len(ks), ",".join("%s=%s" % (k.hex(), core.fmt_val(mm[k])) for k in ks))


EXTRA_KEY = {bytes.fromhex("7a7a7a"): b"\x5a", bytes.fromhex("7a7a7b"): b"\x5b"}


def evaluate(res, ctx, name, ops, recs, err, rc, check_model=True, pid="C03", classify=None):
    """oracles over one crash run; returns number of images evaluated"""
    oprecs = [r for r in recs if r["kind"] == "op"]
    events = [r for r in recs if r["kind"] == "event"]
    images = [r for r in recs if r["kind"] == "image"]
    if rc != 0 or len(oprecs) < len(ops):
        res.violation("%s: crash run died (rc=%s): %s" % (name, rc, err[-300:]), {"ops": ops, "stderr": err[-2000:]})
        return 0
    for r in oprecs:
        if r["res"].startswith(("panic", "err:", "bad:", "dead")) and not r["op"].startswith(("get", "bget")) and r["res"].split(" ")[0] not in ("err:mergeids", "err:committed"):
            if r["op"].split()[0] in ("put", "get", "del", "bput", "bget", "bdel") and r["op"].split()[1] == "-":
                continue
            res.violation("%s: workload op failed: %s -> %s" % (name, r["op"], r["res"]), {"ops": ops[:r["i"] + 1]})
            return 0
    states, mcount, ismut = reference_states(ops)
    evmap = {e["k"]: e for e in events}
    model_jobs = []
    for im in images:
        e = evmap[im["k"]]
        i = im["op"]
        lo = hi = mcount[i]
        if ismut[i]:
            hi += 1
        cut = im.get("cut")
        if cut:
            # power loss: every mutation acknowledged before the last completed sync of the cut file survives
            fname = list(cut)[0]
            lo_ev = None
            for ev in events[:im["k"]]:
                if ev["file"] == fname and ev["ev"] == "sync":
                    lo_ev = ev
            if lo_ev is None:
                for ev in events[:im["k"] + 1]:
                    if ev["file"] == fname and ev["ev"] == "open":
                        lo_ev = ev
                        break
            lo = mcount[lo_ev["op"]] if lo_ev is not None else 0
            if cut[fname] >= e["files"].get(fname, {}).get("synced", 0) and lo_ev is not None and lo_ev["ev"] == "sync":
                pass
        res.evaluations += 1
        res.count("images")
        res.count("images_%s" % ("cut" if cut else "death"))
        res.count("event:" + im["ev"].split(".")[0])
        what = "%s: crash before event %d (%s %s, during op %d `%s`)%s" % (
            name, im["k"], im["ev"], e["file"], i, ops[i], (" with %s cut to %d bytes" % (list(cut)[0], list(cut.values())[0])) if cut else "")
        if im.get("rm"):
            what += " with the removal of the leftover merge directory interrupted after unlinking " + ",".join(im["rm"])
            res.count("images_partial_rmdir")
        if im.get("level2"):
            what += " then retry crashed at " + im["level2"]
        replay = {"ops": ops, "crash_event": im["k"], "event": im["ev"], "cut": cut, "removed": im.get("rm"), "image": {k: v for k, v in im.items() if k != "files"}}
        key = classify(im, ops) if classify else None
        if im["open"] != "ok":
            res.violation(what + ": Open failed with " + im["open"], replay, key=key)
            continue
        allowed = [fmt_state(states[j]) for j in range(lo, min(hi, len(states) - 1) + 1)]
        if im["dump"] not in allowed:
            # which prefix is it, if any?
            js = [j for j in range(len(states)) if fmt_state(states[j]) == im["dump"]]
            res.violation(what + ": recovered %s, which is %s; allowed prefixes %d..%d" % (
                im["dump"][:200], ("the state after %s mutations" % js) if js else "not a prefix of the acknowledged history", lo, hi), replay, key=key)
            continue
        res.distinct.add("%s|%s|%s" % (im["ev"], bool(cut), im["dump"]))
        j = allowed.index(im["dump"]) + lo
        if not im.get("level2"):
            if im.get("put") != "ok" or im.get("bcommit") != "ok" or im.get("close") != "ok" or im.get("open2") != "ok":
                res.violation(what + ": recovered database does not keep working: put=%s close=%s reopen=%s" % (
                    im.get("put"), im.get("close"), im.get("open2")), replay, key=key)
                continue
            extra = dict(EXTRA_KEY)
            expect2 = dict(states[j])
            expect2.update(extra)
            if "c2open" in im:
                res.count("second_crash_images")
                if im["c2open"] != "ok" or im.get("c2dump") != fmt_state(expect2):
                    res.violation(what + ": after recovery, one more Put and a batch, a SECOND process death (no Close): Open -> %s, mapping %s, expected %s" % (
                        im["c2open"], str(im.get("c2dump"))[:200], fmt_state(expect2)[:200]), replay, key=key)
                    continue
            if im.get("victim"):
                expect2.pop(bytes.fromhex(im["victim"]) if im["victim"] != "-" else b"", None)
                if im.get("del") != "ok" or im.get("merge", "").split(" ")[0] not in ("ok", "err:mergeids"):
                    res.violation(what + ": after recovery Delete/Merge failed: del=%s merge=%s" % (im.get("del"), im.get("merge")), replay, key=key)
                    continue
            if im.get("dump2") != fmt_state(expect2):
                res.violation(what + ": after recovery, one more Put, a batch%s and a restart the mapping is %s, expected %s" % (
                    (", deleting %s and a complete Merge" % im["victim"]) if im.get("victim") else "",
                    str(im.get("dump2"))[:200], fmt_state(expect2)[:200]), replay, key=key)
                continue
            # accounting after recovery (C17 relation) from the package's own scan
            st, sc = im.get("stat", ""), im.get("scanstat", "")
            try:
                sd = dict(x.split("=") for x in st.split()[1:])
                live = int(sc.split("live=")[1].split()[0])
                if int(sd["disk"]) - int(sd["reclaim"]) != live or int(sd["reclaim"]) < 0:
                    res.violation(what + ": Stat after recovery inconsistent: %s vs %s" % (st, sc), replay, key=key)
                    continue
            except (ValueError, IndexError, KeyError):
                pass
        else:
            if im.get("open2") != "ok" or im.get("dump2") != im["dump"]:
                res.violation(what + ": second reopen differs: %s %s" % (im.get("open2"), str(im.get("dump2"))[:200]), replay, key=key)
                continue
        if check_model and ctx.model_ok and im.get("files") and not im.get("level2"):
            model_jobs.append((im, what, replay))
    # adoption step by step: the image at the j-th adoption crash point must be the model's directory
    # state after j steps of `Adopt.steps` applied to the image at the first point
    if check_model and ctx.model_ok:
        by_op = {}
        for im in images:
            if im["ev"].startswith("adopt.") and not im.get("level2") and not im.get("cut") and im.get("files") is not None:
                by_op.setdefault(im["op"], []).append(im)

        def listing(im, d):
            items = []
            for fname, blob in im["files"].items():
                dd, f = fname.split("/")
                if dd == d:
                    hx, zext = blob.rsplit(":", 1)
                    items.append("%s:%d" % (f, len(hx) // 2 + int(zext)))
            if d not in im.get("dirs", []):
                return "files absent"
            return "files " + ",".join(sorted(items))
        for op_i, ims in by_op.items():
            ims.sort(key=lambda x: x["k"])
            first = ims[0]
            mops = ["rmdir d", "rmdir d-merge"] + ["mkdir " + d for d in first.get("dirs", [])]
            for fname, blob in sorted(first["files"].items()):
                d, f = fname.split("/")
                hx, zext = blob.rsplit(":", 1)
                mops.append("setfile %s %s %s %s" % (d, f, hx or "-", zext))
            base_n = len(mops)
            for j, im in enumerate(ims):
                seg = list(mops[:base_n]) + ["adoptprefix d %d" % j, "files d", "files d-merge"]
                mo = run_model(seg)
                got = (mo[-2], mo[-1])
                exp = (listing(im, "d"), listing(im, "d-merge"))
                res.count("adoption_prefix_images")
                if mo[-3].startswith("ok") and got != exp and "?" not in got:
                    res.violation("correspondence broke: directory state at adoption crash point %d (%s) of %s: code=%s model=%s" % (
                        j, im["ev"], name, exp, got), {"ops": ops, "crash_event": im["k"], "code": exp, "model": got,
                                                       "correspondence": "Adopt.steps prefix vs real adoption"}, no_input=True)
                    break

    # model comparison: load the image bytes, recover, compare every observation
    if model_jobs:
        cfg = None
        for op in ops:
            if op.startswith("open "):
                cfg = op.split(" ", 2)[2]
        mops = []
        spans = []
        for im, what, replay in model_jobs:
            seg = ["rmdir d", "rmdir d-merge"] + ["mkdir " + d for d in im.get("dirs", [])]
            for fname, blob in sorted(im["files"].items()):
                d, f = fname.split("/")
                hx, zext = blob.rsplit(":", 1)
                seg.append("setfile %s %s %s %s" % (d, f, hx or "-", zext))
            post = []
            if im.get("merge") is not None:
                mres = im["merge"]
                order = mres.split(" order=", 1)[1] if " order=" in mres else ""
                post = (["del " + im["victim"]] if im.get("victim") else []) + ["merge order=" + order]
            seg += ["open d " + cfg, "dump", "stat", "put 7a7a7a x5a", "bnew 0 7999999", "bput 7a7a7b x5b", "bcommit", "bdrop"] + post + ["close",
                    "files d", "files d-merge", "open d " + cfg, "dump", "close"]
            spans.append((len(mops), len(seg)))
            mops += seg
        mout = run_model(mops, timeout=600)
        for (a, n), (im, what, replay) in zip(spans, model_jobs):
            npost = (1 if im.get("merge") is not None else 0) + (1 if im.get("merge") is not None and im.get("victim") else 0)
            got = mout[a + n - 14 - npost:a + n]
            got = got[:8] + got[8 + npost:]
            exp = [im["open"], im["dump"], im.get("stat"), im.get("put"), "ok", "ok", im.get("bcommit"), "ok", im.get("close"), im.get("listing"),
                   im.get("mergedir"), im.get("open2"), im.get("dump2"), "ok"]
            labels = ["open", "dump", "stat", "put", "bnew", "bput", "bcommit", "bdrop", "close", "files d", "files d-merge", "open2", "dump2", "close2"]
            if npost:
                # file layout after the post-recovery merge is compared through the dumps only
                exp[9] = exp[10] = None
            for lab, g, x in zip(labels, got, exp):
                if g == "?" or x is None:
                    continue
                if lab in ("files d", "files d-merge"):
                    # a hint file created empty by Open, or left extended by an mmap crash image, is not modelled
                    import re as _re
                    norm = lambda t: _re.sub(r"000000000\.hint:\d+,?", "", t or "").rstrip(",")
                    g, x = norm(g), norm(x)
                if g != x:
                    res.violation("correspondence broke: recovery of the image at " + what + ": %s code=%s model=%s" % (lab, str(x)[:200], str(g)[:200]),
                                  {"ops": ops, "crash_event": im["k"], "cut": im.get("cut"), "observation": lab, "code": x, "model": g,
                                   "correspondence": "recovery of crash image"}, no_input=True)
                    break
            else:
                res.count("model_agreed_images")
                res.extra["traces_validated_against_impl"] = res.extra.get("traces_validated_against_impl", 0) + 1
    return len(images)


def classify_known(im, ops):
    """stable keys of recorded findings (known_findings.txt)"""
    io = 0
    for op in ops:
        if op.startswith("open "):
            io = int(op.split()[6])
    if io == 1 and im.get("cut") and im.get("open") == "err:crc":
        return "mmap-powerloss-cut-inside-record"
    return None


def workload(rng, io=0, kind="mixed", nsteps=14):
    """short crash workload on directory d (ends with close)"""
    cfg = engine.rand_cfg(rng, io=io, fs=rng.choice([4096, 20000, 65536]))
    if kind == "sync-batch":
        cfg["sync"] = rng.choice([0, 1])
    w = {"reopen": 0, "merge": 0, "keys": 0, "fold": 0, "dump": 0, "stat": 0, "getabsent": 0, "emptykey": 0, "get": 1,
         "put": 30, "del": 10, "batch": 10, "sync": 6}
    if kind == "batch":
        w.update({"batch": 40, "put": 15})
    if kind == "merge":
        w.update({"merge": 6, "reopen": 5})
    g = engine.Gen(rng, cfg, nkeys=rng.choice([3, 5]), weights=w, max_val=rng.choice([300, 5000, 40000]))
    ops = g.history(nsteps)
    ops = [o for o in ops if o.split()[0] not in ("dump", "stat", "files", "keys", "fold")]
    # restarts inside the workload keep the I/O type (every mmap open costs a 1 GiB mapping)
    fixed = []
    for o in ops:
        f = o.split()
        if f[0] == "open":
            f[6] = str(io)
            o = " ".join(f)
        fixed.append(o)
    return fixed, cfg


def merge_workload(rng, io=0, double=None):
    """a history whose merge output spans several files, followed by the adopting restart (C07)"""
    fs = rng.choice([4096, 4096, 8192])
    cfg = {"fs": fs, "sync": rng.choice([0, 1]), "bps": 0, "idx": rng.choice([1, 2, 3]), "io": io, "shards": rng.choice([1, 4, 16])}
    keys = ["%02x%02x" % (97 + j, 97 + j) for j in range(rng.choice([6, 9]))]
    ops = [engine.open_line("d", cfg)]
    seed = rng.randrange(1000)
    if rng.random() < 0.6:
        # write-once keys: live records in the OLDEST files too, so that (Merge visiting the files in Go map order)
        # a rewritten file k holds live records of original files other than k
        for j in range(rng.choice([8, 14])):
            seed += 1
            ops.append("put %02x%02x%02x p%d:%d" % (119, 97 + j, 97 + j, seed, rng.choice([400, 600, 900])))
    for r in range(rng.choice([2, 3])):
        for k in keys:
            seed += 1
            ops.append("put %s p%d:%d" % (k, seed, rng.choice([700, 1100, 1500])))
    ops.append("del " + keys[0])
    if rng.random() < 0.5:
        ops += ["bnew 0 %d" % (7000000 + seed), "bput %s p%d:900" % (keys[1], seed + 1), "bdel " + keys[2], "bcommit", "bdrop"]
    ops.append("merge")
    for _ in range(rng.choice([0, 2])):
        seed += 1
        ops.append("put %s p%d:%d" % (rng.choice(keys), seed, rng.choice([10, 1200])))
    if (rng.random() < 0.4) if double is None else double:
        # a SECOND Merge without a restart in between: it finds the finished, not yet adopted merge directory of the first one
        # and has to get rid of it (directory removal is not atomic) before it starts over
        ops.append("del " + keys[-1])
        for k in keys[1:4]:
            seed += 1
            ops.append("put %s p%d:%d" % (k, seed, rng.choice([700, 1100])))
        ops.append("merge")
    ops += ["close", engine.open_line("d", cfg), "put %s x01" % keys[3], "close"]
    return ops, cfg


def sync_policy_check(res, name, ops, recs):
    """C13 on the event log: at the return of every public call, which bytes are covered by a completed sync.
    Every write event is attributed to the public call that issued it; a completed sync of a file covers
    everything written to it before."""
    oprecs = [r for r in recs if r["kind"] == "op"]
    events = [r for r in recs if r["kind"] == "event"]
    cfg = None
    written = {}
    synced = {}
    pend = None
    putdel = []        # (file, start, end) byte ranges appended by acknowledged Put/Delete calls
    batch = None       # ranges appended by the open batch; None when no batch
    batch_sync = False
    problems = []
    rotated_unsynced = []

    def uncovered(ranges):
        return sum(max(0, e - max(b, synced.get(f, 0))) for f, b, e in ranges)
    for r in oprecs:
        f = r["op"].split()
        if f[0] == "open":
            cfg = {"sync": int(f[3]), "bps": int(f[4]), "io": int(f[6])}
            written, synced, putdel, batch = {}, {}, [], None
        mine = []
        for e in events[r["ev_from"]:r["ev_to"]]:
            if pend is not None:
                synced[pend[0]] = max(synced.get(pend[0], 0), pend[1])
                pend = None
            fn = e["file"]
            if e["ev"] == "open":
                if fn.startswith("d/") and fn.endswith(".data") and fn not in written and f[0] != "open":
                    for g, w in written.items():
                        if g.startswith("d/") and g.endswith(".data") and synced.get(g, 0) < w:
                            rotated_unsynced.append((r["op"], g, synced.get(g, 0), w))
                if fn not in written:
                    # pre-existing content (restart) counts as flushed: Close flushed it
                    written[fn] = e["n"]
                    synced[fn] = e["n"]
            elif e["ev"] == "write":
                start = written.get(fn, 0)
                written[fn] = start + e["n"]
                mine.append((fn, start, written[fn]))
            elif e["ev"] == "sync":
                pend = (fn, written.get(fn) or 0)
            elif e["ev"] == "truncate":
                if written.get(fn) is not None:
                    written[fn] = min(written[fn], e["n"])
                if cfg and cfg["io"] == 1:
                    pend = (fn, written.get(fn) or e["n"])
        if pend is not None:
            synced[pend[0]] = max(synced.get(pend[0], 0), pend[1])
            pend = None
        mine = [x for x in mine if x[0].startswith("d/") and x[0].endswith(".data")]
        if f[0] == "bnew":
            batch = []
            batch_sync = len(f) > 1 and f[1] == "1"
        if batch is not None and f[0] in ("bput", "bdel", "bcommit"):
            batch += mine
        if r["res"] != "ok":
            continue
        if f[0] in ("put", "del") and cfg:
            putdel += mine
            putdel = [x for x in putdel if uncovered([x]) > 0]
            u = uncovered(putdel)
            if cfg["sync"] == 1 and u != 0:
                problems.append("SyncStrategy Always: `%s` returned with %d unflushed bytes of Put/Delete records" % (r["op"], u))
            if cfg["sync"] == 2:
                # the engine counts record bytes; block-tail padding (<= 7 bytes per block) is not a record byte
                # (padding is written at the start of an append that begins within 7 bytes of a block end, so only a
                # write range that spans a block boundary can contain any)
                slack = 8 * sum(1 + (e - b) // 32768 for _, b, e in putdel if b // 32768 != (e - 1) // 32768)
                if u >= cfg["bps"] + slack:
                    problems.append("SyncStrategy Threshold(%d): `%s` returned with %d unflushed bytes appended by acknowledged Puts/Deletes" % (
                        cfg["bps"], r["op"], u))
        if f[0] == "bcommit" and batch is not None:
            if batch_sync and uncovered(batch) != 0:
                problems.append("Sync batch: Commit returned with %d of the batch's bytes unflushed (sealing record?)" % uncovered(batch))
            batch = None
        if f[0] in ("sync",):
            act = [g for g in written if g.startswith("d/") and g.endswith(".data") and written[g] is not None]
            u = sum((written[g] or 0) - synced.get(g, 0) for g in act[-1:])
            if u > 0:
                problems.append("Sync() returned with %d unflushed bytes in the active file" % u)
        if f[0] == "close":
            u = sum(max(0, (w or 0) - synced.get(g, 0)) for g, w in written.items() if g.startswith("d/") and g.endswith(".data"))
            if u > 0:
                problems.append("Close() returned with %d unflushed bytes" % u)
    for op, g, sy, w in rotated_unsynced:
        problems.append("during `%s` the engine created a new data file while %s had %d of %d bytes flushed" % (op, g, sy, w))
    return problems
