"""C08 / C09 / C06-concurrent: forced two-client schedules, race-detector stress, free-running agreement."""
import json
import os
import re
import subprocess

from . import core
from .core import run_model

KEY = "6b"   # the contended key "k" (model key 1)


def run_sched(ctx, scenarios, timeout=300):
    base = ctx.scratch.fresh()
    try:
        inp = "\n".join(json.dumps(s) for s in scenarios) + "\n"
        try:
            r = subprocess.run([core.XKV, "sched", base], input=inp, capture_output=True, text=True, timeout=timeout)
            out, err = r.stdout, r.stderr
        except subprocess.TimeoutExpired as e:
            out = e.stdout.decode() if isinstance(e.stdout, bytes) else (e.stdout or "")
            err = "timeout"
        res = []
        for line in out.split("\n"):
            if line.startswith("{"):
                res.append(json.loads(line))
        return res, err
    finally:
        ctx.scratch.drop(base)


CFG = "65536 0 0 %d 0 4"


def kv_scenarios(idx):
    """all pairs of one-op clients on one key, paused at every schedule point of A"""
    scs = []
    vals = {"a": "x0a", "b": "x14"}       # model values 10 and 20
    for pre in (False, True):
        setup = ["put %s x05" % KEY] if pre else []
        for aop, points in (("put", ["put.afterAppend"]), ("del", ["del.afterCheck", "del.afterAppend"])):
            if aop == "del" and not pre:
                continue  # delete of an absent key returns before the points
            for point in points:
                for bop in ("put", "del", "get"):
                    a = "put %s %s" % (KEY, vals["a"]) if aop == "put" else "del %s" % KEY
                    b = {"put": "put %s %s" % (KEY, vals["b"]), "del": "del %s" % KEY, "get": "get %s" % KEY}[bop]
                    scs.append({"cfg": CFG % idx, "setup": setup, "a": a, "point": point, "nth": 1, "b": [b], "after": [],
                                "meta": {"pre": pre, "aop": aop, "bop": bop, "point": point}})
    return scs


def seq_outcomes(pre, ops):
    """sequential reference for a list of (client, op) on the key: results and final value"""
    v = 5 if pre else None
    res = {}
    for who, op in ops:
        f = op.split()
        if f[0] == "put":
            v = int(f[2][1:], 16)
            res[who] = "ok"
        elif f[0] == "del":
            v = None
            res[who] = "ok"
        else:
            res[who] = ("v1:" if v is not None else "notfound")
    return res, v


def dump_value(dump):
    """value token of the contended key in a dump line (None when absent)"""
    m = re.search(r"\b%s=(\S+?)(,|$)" % KEY, dump or "")
    return m.group(1) if m else None


def model_schedule(meta, b_status, flags):
    """the model schedule that corresponds to the observed interleaving (B blocked until A finished,
    or B got through while A was paused at `point`)"""
    p, dc, di = flags
    aop, bop, pre, point = meta["aop"], meta["bop"], meta["pre"], meta["point"]
    pre_s = ["9:put 1 5", "9:acq", "9:append"] + (["9:index", "9:rel"] if p else ["9:rel", "9:index"]) + ["9:ret"] if pre else []

    def steps(t, op, exists):
        if op == "put":
            return (["%d:acq" % t, "%d:append" % t] + (["%d:index" % t, "%d:rel" % t] if p else ["%d:rel" % t, "%d:index" % t]) + ["%d:ret" % t])
        if op == "get":
            return ["%d:idxRead" % t, "%d:resolve" % t, "%d:ret" % t]
        # delete
        s = (["%d:acq" % t, "%d:check" % t] if dc else ["%d:check" % t])
        if not exists:
            return s + (["%d:rel" % t] if dc else []) + ["%d:ret" % t]
        if not dc:
            s += ["%d:acq" % t]
        s += ["%d:append" % t] + (["%d:index" % t, "%d:rel" % t] if di else ["%d:rel" % t, "%d:index" % t]) + ["%d:ret" % t]
        return s
    calls = {"put": "put 1 %d", "del": "del 1", "get": "get 1"}
    a_call = "0:" + (calls[aop] % 10 if aop == "put" else calls[aop])
    b_call = "1:" + (calls[bop] % 20 if bop == "put" else calls[bop])
    a_steps = steps(0, aop, pre)
    # where does A stand when paused at `point`?
    if point == "put.afterAppend":
        cut = a_steps.index("0:append") + 1
    elif point == "del.afterCheck":
        cut = a_steps.index("0:check") + 1
    else:
        cut = a_steps.index("0:append") + 1
    if b_status == "blocked" or bop == "get" and False:
        # B ran after A completed (its lock-free prefix, if any, could run earlier; equivalent here)
        exists_for_b = (aop == "put") or (pre and aop != "del")
        return pre_s + [a_call] + a_steps + [b_call] + steps(1, bop, exists_for_b)
    # B got through inside A's window
    exists_for_b = pre or aop == "put" and "0:index" in a_steps[:cut]
    return pre_s + [a_call] + a_steps[:cut] + [b_call] + steps(1, bop, exists_for_b) + a_steps[cut:]


def check_kv_schedules(res, ctx, idx_types):
    flags_line = run_model(["conc gen 0:get 1; 0:idxRead; 0:resolve; 0:ret"])[0] if ctx.model_ok else ""
    for idx in idx_types:
        scs = kv_scenarios(idx)
        outs, err = run_sched(ctx, [{k: v for k, v in s.items() if k != "meta"} for s in scs])
        if len(outs) < len(scs):
            res.violation("schedule harness died after %d of %d scenarios: %s" % (len(outs), len(scs), err[-300:]),
                          {"scenarios": scs[len(outs):len(outs) + 1], "stderr": err[-2000:]})
        for sc, o in zip(scs, outs):
            meta = sc["meta"]
            res.evaluations += 1
            res.count("sched:%s/%s" % (meta["aop"], meta["bop"]))
            res.count("b_status:" + o.get("b_status", "?"))
            res.distinct.add(json.dumps([meta, o.get("b_status"), o.get("a"), o.get("b"), o.get("live")]))
            name = "index type %d, A=`%s` paused at %s, B=`%s`%s" % (idx, sc["a"], sc["point"], sc["b"][0], " (key pre-existing)" if meta["pre"] else "")
            replay = {"scenario": {k: v for k, v in sc.items() if k != "meta"}, "observed": o}
            if o.get("error"):
                res.violation("forced schedule %s: %s" % (name, o["error"]), replay)
                continue
            if not o.get("reached"):
                res.violation("forced schedule %s: hook point was not reached (hooks drifted?)" % name, replay, no_input=True)
                continue
            a, b = o["a"], (o["b"] or ["?"])[0]
            if "err:indexupdate" in (a, b):
                res.violation("forced schedule %s: an individually valid operation returned the index-update-failed error (A=%s B=%s)" % (name, a, b), replay)
                continue
            if a.startswith(("panic", "dead")) or b.startswith(("panic", "dead")):
                res.violation("forced schedule %s: panic (A=%s B=%s)" % (name, a, b), replay)
                continue
            if o.get("reopen") != "ok":
                res.violation("forced schedule %s: reopen failed: %s" % (name, o.get("reopen")), replay)
                continue
            if o.get("live") != o.get("restart"):
                res.violation("forced schedule %s: live mapping %s differs from the mapping recovered by a restart %s (b %s)" % (
                    name, o.get("live"), o.get("restart"), o.get("b_status")), replay)
                continue
            # linearizable: explained by A;B or B;A
            ok = False
            for order in ((("a", sc["a"]), ("b", sc["b"][0])), (("b", sc["b"][0]), ("a", sc["a"]))):
                r, v = seq_outcomes(meta["pre"], order)
                la = a if not a.startswith("v") else "v1:"
                lb = b if not b.startswith("v") else "v1:"
                if r["a"] == la and r["b"] == lb:
                    fv = dump_value(o.get("live"))
                    if (v is None) == (fv is None):
                        if meta["bop"] == "get" and b.startswith("v"):
                            pass
                        ok = True
            if not ok:
                res.violation("forced schedule %s: results A=%s B=%s final=%s are not explained by any sequential order" % (name, a, b, o.get("live")), replay)
                continue
            # model prediction for the observed interleaving under the generated shape
            if ctx.model_ok and o.get("b_status") == "timeout":
                res.count("kv_schedule_unscheduled:timeout")     # interleaving not determined inside the window
            elif ctx.model_ok:
                m = re.search(r"", flags_line)
                for flags in ((True, True, True),):
                    sched = model_schedule(meta, o["b_status"], flags)
                    mo = run_model(["conc gen " + "; ".join(sched)])[0]
                    fields = dict(x.split("=", 1) for x in mo.split(" ") if "=" in x and not x.startswith(("live", "restart", "results")))
                    if fields.get("completed") != "true":
                        res.violation("correspondence broke: the interleaving observed on the code (%s; B %s) is not a run of the model under the shape "
                                      "computed from the lockset table: %s" % (name, o["b_status"], mo),
                                      {"scenario": replay["scenario"], "observed": o, "model_schedule": sched, "model": mo,
                                       "correspondence": "forced schedule vs Conc.run"}, no_input=True)
                    elif fields.get("agree") != "true" or fields.get("spurious") != "false":
                        res.violation("model predicts disagreement for an interleaving the code executed (%s): %s" % (name, mo),
                                      {"scenario": replay["scenario"], "observed": o, "model": mo}, no_input=True)
                    else:
                        res.count("model_agreed_schedules")
        if outs:
            res.sample({"scenario": {k: v for k, v in scs[0].items() if k != "meta"}, "observed": outs[0]})


def listkeys_scenarios(idx):
    scs = []
    setup = ["put 6161 x01", "put 6262 x02", "put 6363 x03"]
    for b in (["put 6464 x04"], ["del 6262"], ["del 6161", "del 6262", "del 6363"], ["put 6464 x04", "put 6565 x05", "put 6666 x06"]):
        scs.append({"cfg": CFG % idx, "setup": setup, "a": "keys", "point": "listkeys.afterSnapshot", "nth": 1, "b": b, "after": []})
    return scs


def check_listkeys(res, ctx, idx_types):
    for idx in idx_types:
        scs = listkeys_scenarios(idx)
        outs, err = run_sched(ctx, scs)
        for sc, o in zip(scs, outs):
            res.evaluations += 1
            res.count("sched:listkeys")
            name = "index type %d, ListKeys paused after its snapshot, meanwhile %s" % (idx, sc["b"])
            replay = {"scenario": sc, "observed": o}
            a = o.get("a", "")
            res.distinct.add(json.dumps([idx, sc["b"], a]))
            if o.get("error") or not a.startswith("keys "):
                res.violation("%s: ListKeys -> %s %s" % (name, a, o.get("error", "")), replay)
                continue
            ks = [x for x in a[5:].split(",") if x]
            if "-" in ks or ks != sorted(ks) or len(set(ks)) != len(ks):
                res.violation("%s: ListKeys returned %s (nil / unsorted / duplicate keys)" % (name, a), replay)
                continue
            if ks != ["6161", "6262", "6363"]:
                res.violation("%s: ListKeys returned %s, expected the snapshot taken at its start (6161,6262,6363)" % (name, a), replay)


def merge_scenarios(rng, idx, n):
    scs = []
    for i in range(n):
        keys = ["%02x%02x" % (97 + j, 97 + j) for j in range(6)]
        setup = []
        seed = rng.randrange(1000)
        for r in range(3):
            for k in keys:
                seed += 1
                setup.append("put %s p%d:%d" % (k, seed, rng.choice([300, 900, 1500])))
        setup.append("del %s" % keys[0])
        b = []
        for _ in range(rng.choice([1, 3, 6])):
            seed += 1
            k = rng.choice(keys)
            b.append(rng.choice(["put %s p%d:%d" % (k, seed, rng.choice([10, 1200])), "del %s" % k]))
        point = "merge.record" if i % 3 else "merge.rotated"
        if point == "merge.rotated":
            # writers that fill the fresh active file and rotate while Merge has just released the lock
            for j in range(rng.choice([4, 6])):
                seed += 1
                b.append("put %s p%d:%d" % (rng.choice(keys + ["7777", "7878"]), seed, rng.choice([1200, 1500])))
        scs.append({"cfg": "4096 0 0 %d %d 4" % (idx, rng.choice([0, 0, 1])), "setup": setup, "a": "merge", "point": point,
                    "nth": rng.randrange(1, 18) if point == "merge.record" else 1, "b": b, "after": []})
    return scs


def check_merge_concurrent(res, ctx, rng, idx_types, n):
    for idx in idx_types:
        scs = merge_scenarios(rng, idx, n)
        outs, err = run_sched(ctx, scs)
        if len(outs) < len(scs):
            res.violation("schedule harness died in the merge scenarios: %s" % err[-300:], {"scenario": scs[len(outs)]})
        for sc, o in zip(scs, outs):
            res.evaluations += 1
            res.count("sched:merge")
            res.count("merge_b_status:" + o.get("b_status", "?"))
            m = {}
            for op in sc["setup"] + (sc["b"] if o.get("b_status") in ("ran", "blocked", "sequential", "timeout") else []):
                f = op.split()
                if f[0] == "put":
                    m[bytes.fromhex(f[1])] = core.val_bytes(f[2])
                else:
                    m.pop(bytes.fromhex(f[1]), None)
            ks = sorted(m)
            exp = "dump n=%d %s" % (len(ks), ",".join("%s=%s" % (k.hex(), core.fmt_val(m[k])) for k in ks))
            name = "Merge (index %d) paused at its %d-th record while %s ran" % (idx, sc["nth"], sc["b"])
            replay = {"scenario": sc, "observed": o}
            res.distinct.add(json.dumps([sc["nth"], sc["b"], o.get("live")]))
            if o.get("error") or o.get("a", "").split(" ")[0] not in ("ok", "err:mergeids"):
                res.violation("%s: %s %s" % (name, o.get("a"), o.get("error", "")), replay)
                continue
            for lab in ("live", "restart", "restart2"):
                if o.get(lab) != exp:
                    res.violation("%s: %s mapping is %s, expected the final live outcome %s" % (name, lab, str(o.get(lab))[:200], exp[:200]), replay)
                    break


def run_race(ctx, secs, goroutines, idx, io, seed, race=True, mode=None):
    base = ctx.scratch.fresh()
    try:
        exe = core.XKV_RACE if race else core.XKV
        env = dict(os.environ, GORACE="halt_on_error=0 history_size=2", GOMEMLIMIT="4GiB")
        try:
            r = subprocess.run([exe, "race", base, str(secs), str(goroutines), str(idx), str(io), str(seed)] + ([mode] if mode else []),
                               capture_output=True, text=True, timeout=secs + 120, env=env)
            out, err, rc = r.stdout, r.stderr, r.returncode
        except subprocess.TimeoutExpired:
            out, err, rc = "", "timeout", -9
        rep = None
        for line in out.split("\n"):
            if line.startswith("{"):
                rep = json.loads(line)
        return rep, err, rc
    finally:
        ctx.scratch.drop(base)


def race_reports(stderr):
    reps = stderr.split("WARNING: DATA RACE")[1:]
    out = []
    for r in reps:
        frames = re.findall(r"^\s+(\S+)\(\)\n\s+(\S+?):(\d+)", r, flags=re.M)
        own = [f for f in frames if "XiXi-2024/xixi-kv" in f[0] or "/repo/" in f[1]]
        out.append({"frames": ["%s %s:%s" % f for f in frames[:8]], "in_xixi": bool(own),
                    "key": "|".join(sorted(set(f[0].split("/")[-1] for f in (own or frames)[:2])))})
    return out


# ---------------------------------------------------------------- concurrent Merge vs Model/ConcMerge.lean

MKEYS = ["%02x%02x" % (97 + j, 97 + j) for j in range(5)]     # model keys 1..5


def merge_model_scenarios(rng, idx, n):
    """one old file (file size 64 KiB, setup < 30 KB) so that the visiting order of the scan is the log order"""
    scs = []
    for i in range(n):
        seed = rng.randrange(1, 500) * 100
        setup = []
        present = set()
        for _ in range(rng.randrange(3, 14)):
            k = rng.choice(MKEYS)
            seed += 1
            if k in present and rng.random() < 0.3:
                setup.append("del %s" % k)
                present.discard(k)
            else:
                setup.append("put %s p%d:%d" % (k, seed, rng.choice([10, 300, 1200])))
                present.add(k)
        nrec = len(setup)
        b = []
        for _ in range(rng.choice([1, 2, 4])):
            seed += 1
            k = rng.choice(MKEYS)
            b.append(rng.choice(["put %s p%d:%d" % (k, seed, rng.choice([10, 700])), "del %s" % k]))
        point = "merge.record" if i % 4 else "merge.rotated"
        scs.append({"cfg": "65536 0 0 %d %d 4" % (idx, rng.choice([0, 0, 1])), "setup": setup, "a": "merge", "point": point,
                    "nth": rng.randrange(1, nrec + 2) if point == "merge.record" else 1, "b": b, "after": [], "meta": {"nrec": nrec}})
    return scs


def _client_steps(t, op, exists):
    f = op.split()
    k = MKEYS.index(f[1]) + 1
    if f[0] == "put":
        v = int(f[2][1:].split(":")[0])
        return ["%d:put %d %d" % (t, k, v), "%d:acq" % t, "%d:append" % t, "%d:index" % t, "%d:rel" % t, "%d:ret" % t], True
    s = ["%d:del %d" % (t, k), "%d:acq" % t, "%d:check" % t]
    if not exists:
        return s + ["%d:rel" % t, "%d:ret" % t], False
    return s + ["%d:append" % t, "%d:index" % t, "%d:rel" % t, "%d:ret" % t], False


def merge_model_schedule(sc, o):
    """the ConcMerge schedule of the observed run: setup; m:start; the visits before the pause; B; the rest"""
    present = set()
    sched = []
    for op in sc["setup"]:
        k = op.split()[1]
        st, now = _client_steps(9, op, k in present)
        sched += st
        (present.add if now else present.discard)(k)
    nrec = sc["meta"]["nrec"]
    before = 0 if sc["point"] == "merge.rotated" else sc["nth"] - 1
    if not o.get("reached"):
        before = nrec
    sched += ["m:start"] + ["m:visit"] * before
    bsteps = []
    for op in sc["b"]:
        k = op.split()[1]
        st, now = _client_steps(1, op, k in present)
        bsteps += st
        (present.add if now else present.discard)(k)
    if o.get("reached"):
        sched += bsteps + ["m:visit"] * (nrec - before) + ["m:finish"]
    else:
        sched += ["m:finish"] + bsteps
    return sched


def _dump_map(dump):
    m = {}
    body = (dump or "").split(" ", 2)
    if len(body) == 3 and body[2]:
        for it in body[2].split(","):
            k, v = it.split("=", 1)
            m[k] = v
    return m


def check_merge_model(res, ctx, rng, idx_types, n):
    if not ctx.model_ok:
        return
    for idx in idx_types:
        scs = merge_model_scenarios(rng, idx, n)
        outs, err = run_sched(ctx, [{k: v for k, v in s.items() if k != "meta"} for s in scs])
        if len(outs) < len(scs):
            res.violation("schedule harness died in the merge/model scenarios: %s" % err[-300:], {"scenario": scs[len(outs)]})
        for sc, o in zip(scs, outs):
            res.evaluations += 1
            res.count("sched:merge-model")
            replay = {"scenario": {k: v for k, v in sc.items() if k != "meta"}, "observed": o}
            name = "Merge (index %d) paused at %s #%d while %s ran" % (idx, sc["point"], sc["nth"], sc["b"])
            if o.get("error") or o.get("a", "").split(" ")[0] != "ok":
                res.violation("%s: merge=%s b=%s %s" % (name, o.get("a"), o.get("b_status"), o.get("error", "")), replay)
                continue
            if o.get("b_status") not in ("ran", "sequential"):
                # the second client did not finish inside the observation window (loaded machine): the interleaving
                # that was executed is not known, nothing to compare
                res.count("merge_model_unscheduled:" + str(o.get("b_status")))
                continue
            sched = merge_model_schedule(sc, o)
            mo = run_model(["concm gen " + "; ".join(sched)])[0]
            replay["model_schedule"] = sched
            replay["model"] = mo
            replay["correspondence"] = "forced merge schedule vs ConcMerge.renderM"
            if "completed=true" not in mo or "merge=done" not in mo:
                res.violation("correspondence broke: the interleaving observed on the code (%s) is not a run of the merge model: %s" % (name, mo[:300]),
                              replay, no_input=True)
                continue
            # tokens of the values
            tok = {}
            for op in sc["setup"] + sc["b"]:
                f = op.split()
                if f[0] == "put":
                    tok[f[2][1:].split(":")[0]] = core.fmt_val(core.val_bytes(f[2]))

            def mmap_of(tag):
                m = re.search(tag + r"\[([^\]]*)\]", mo)
                d = {}
                for it in (m.group(1).split() if m else []):
                    k, v = it.split("=")
                    if v != "-":
                        d[MKEYS[int(k) - 1]] = tok[v]
                return d
            live, adopted = mmap_of("live"), mmap_of("adopted")
            glive, grest, grest2 = _dump_map(o.get("live")), _dump_map(o.get("restart")), _dump_map(o.get("restart2"))
            bad = None
            if glive != live:
                bad = "live mapping: code %s, model %s" % (glive, live)
            elif grest != adopted or grest2 != adopted:
                bad = "mapping after the adopting restart: code %s / %s, model %s" % (grest, grest2, adopted)
            else:
                m = re.search(r"post=(\d+) out\[([^\]]*)\]", mo)
                want = int(m.group(1)) + len(m.group(2).split())
                got = sum(int(x.split(":")[2]) for x in o.get("restart_scan", "files=").split("files=")[1].split(",") if x)
                if got != want:
                    bad = "records on disk after adoption: code %d, model %d (rewritten %s + post-merge %s)" % (got, want, m.group(2), m.group(1))
            if bad:
                if glive != grest:
                    res.violation("%s: %s" % (name, bad), replay)
                else:
                    res.violation("correspondence broke (%s): %s" % (name, bad), replay, no_input=True)
                continue
            res.count("merge_model_agreed")
            res.distinct.add(json.dumps([sc["nth"], sc["point"], sc["b"], mo]))


# ---------------------------------------------------------------- calls issued while Merge is inside its unlocked phase

def check_calls_during_merge(res, ctx, idx_types):
    """Merge is paused right after its rotation / inside its scan; a second client then issues every kind of public
    call, including a second Merge (must be refused with the merge-in-progress error and leave everything usable)."""
    for idx in idx_types:
        setup = ["put %02x%02x p%d:700" % (97 + j % 5, 97 + j % 5, j) for j in range(12)]
        scs = []
        for point, nth in (("merge.rotated", 1), ("merge.record", 3), ("merge.beforeMarker", 1)):
            scs.append({"cfg": "4096 0 0 %d 0 4" % idx, "setup": setup, "a": "merge", "point": point, "nth": nth,
                        "b": ["merge", "put 6161 x01", "get 6161", "del 6262", "keys", "fold", "stat", "sync", "bnew 0 7001009", "bput 6363 x02", "bcommit", "bdrop",
                              "merge", "put 6464 x03"], "after": ["merge", "put 6565 x04", "dump"]})
        outs, err = run_sched(ctx, scs)
        if len(outs) < len(scs):
            why = "the Go runtime reports `all goroutines are asleep - deadlock!`" if "all goroutines are asleep" in err else err[-300:]
            res.violation("calls during a paused Merge (%s): the process died: %s" % (scs[len(outs)]["point"], why), {"scenario": scs[len(outs)], "stderr": err[:1500]})
        for sc, o in zip(scs, outs):
            res.evaluations += 1
            res.count("sched:calls-during-merge")
            name = "index %d, Merge paused at %s, second client runs %d calls" % (idx, sc["point"], len(sc["b"]))
            replay = {"scenario": sc, "observed": {k: v for k, v in o.items() if k != "stacks"}}
            res.distinct.add(json.dumps([idx, sc["point"], o.get("b"), o.get("b_status")]))
            if o.get("error") or not o.get("reached"):
                res.violation("%s: %s (second client %s; a call blocked behind a Merge that holds no lock is a deadlock)" % (
                    name, o.get("error", "hook point not reached"), o.get("b_status")), replay, no_input=not o.get("error"))
                continue
            if o.get("b_status") != "ran":
                # slow machine: the second client needed longer than the observation window but everything completed
                res.count("calls_during_merge_slow:" + str(o.get("b_status")))
            b = o.get("b") or []
            bad = [(op, r) for op, r in zip(sc["b"], b) if (op == "merge" and r.split(" ")[0] != "err:merging") or
                   (op != "merge" and (r.startswith(("err", "panic", "dead")) or r == "notfound"))]
            if bad:
                res.violation("%s: `%s` -> %s" % (name, bad[0][0], bad[0][1]), replay)
                continue
            if o.get("a", "").split(" ")[0] != "ok" or [x.split(" ")[0] for x in o.get("after", [])[:2]] != ["ok", "ok"]:
                res.violation("%s: the paused Merge returned %s, the calls after it %s" % (name, o.get("a"), o.get("after")), replay)
                continue
            if o.get("live") != o.get("restart") or o.get("restart") != o.get("restart2"):
                res.violation("%s: live %s, restart %s, second restart %s" % (name, o.get("live"), o.get("restart"), o.get("restart2")), replay)


def check_batch_visibility(res, ctx, combos):
    """what OTHER goroutines observe while a batch is open (xkv batchvis): a batch is one atomic multi-key write at its Commit;
    its early flushes (records in the log, index already updated) must not be observable before the Commit, and no reader may
    return a value that no committed state ever held (Model/ConcBatch.lean: C08B_linearizable, C05_partial_flush_unobservable)."""
    import subprocess
    for idx, io in combos:
        base = ctx.scratch.fresh()
        try:
            r = subprocess.run([core.XKV, "batchvis", base, str(idx), str(io)], capture_output=True, text=True, timeout=120)
        except subprocess.TimeoutExpired:
            res.violation("open-batch visibility scenarios (index %d, io %d): timeout (a reader deadlocked?)" % (idx, io),
                          {"cmd": "xkv batchvis <dir> %d %d" % (idx, io)})
            continue
        finally:
            ctx.scratch.drop(base)
        recs = []
        for line in r.stdout.split("\n"):
            if line.startswith("{"):
                try:
                    recs.append(json.loads(line))
                except ValueError:
                    pass
        if r.returncode != 0 or len(recs) < 6 or any("error" in x for x in recs):
            res.violation("open-batch visibility scenarios (index %d, io %d) did not run: %s" % (idx, io, (r.stdout + r.stderr)[-300:]),
                          {"cmd": "xkv batchvis <dir> %d %d" % (idx, io)})
            continue
        for x in recs:
            res.evaluations += 1
            res.count("batch_visibility_scenarios")
            res.distinct.add("bv:%d:%d:%s:%s" % (idx, io, x["scenario"][:1], json.dumps(x["observations"], sort_keys=True)))
            for v in x.get("violations") or []:
                res.violation("while a batch is open (index %d, io %d; scenario %s): %s" % (idx, io, x["scenario"], v),
                              {"cmd": "xkv batchvis <dir> %d %d" % (idx, io), "scenario": x["scenario"], "observations": x["observations"]})
