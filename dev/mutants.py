#!/usr/bin/env python3
"""dev-only: re-introduce each repaired defect (reverse patch of its fix commit, or a hand-written
variant under harness/mutants/*.mut.diff) into /repo's working tree, run the quick checks of the
properties it breaks, record whether they turn red, and restore the tree.  Never commits anything."""
import json
import os
import re
import subprocess
import sys
import time

V = "/verif"
props = {}
for line in open(os.path.join(V, "known_findings.txt")):
    m = re.match(r"fixed:\s+property=(\S+)\s+(\S+)\s+(.*)", line)
    if m:
        also = re.findall(r"also (C\d\d(?:, C\d\d)*)", m.group(3))
        ids = [m.group(1)] + ([x.strip() for x in also[0].split(",")] if also else [])
        props[m.group(2)] = ids
only = sys.argv[1:]
results = {}
mdir = os.path.join(V, "harness", "mutants")
for fn in sorted(os.listdir(mdir)):
    if fn.endswith(".fix.diff"):
        c = fn.split(".")[0]
        rev = True
    elif fn.endswith(".mut.diff"):
        c = fn.split(".")[0]
        rev = False
    else:
        continue
    if only and c not in only:
        continue
    path = os.path.join(mdir, fn)
    args = ["git", "-C", "/repo", "apply"] + (["-R"] if rev else []) + [path]
    if subprocess.run(args[:4] + ["--check"] + args[4:], capture_output=True).returncode != 0:
        results[c] = {"applied": False}
        continue
    subprocess.run(args, check=True)
    try:
        b = subprocess.run("cd /repo && GOFLAGS=-mod=mod GOPROXY=off GOSUMDB=off GOTOOLCHAIN=local go build ./... && go build -tags verif ./...",
                           shell=True, capture_output=True, text=True)
        if b.returncode != 0:
            results[c] = {"applied": True, "builds": False, "err": b.stderr[-300:]}
            continue
        r = {}
        ids = props.get(c, [])
        meta = os.path.join(mdir, c + ".json")
        if os.path.exists(meta):
            ids = json.load(open(meta)).get("properties", ids)
        for pid in ids:
            t0 = time.time()
            p = subprocess.run([os.path.join(V, "bin", "check"), pid, "quick"], capture_output=True, text=True, cwd=V)
            line = [l for l in p.stdout.split("\n") if l.startswith("VIOLATION")]
            first = [l for l in p.stderr.split("\n") if l.startswith("violation:")][:1]
            r[pid] = {"exit": p.returncode, "violation": line[:1], "first": [x[:300] for x in first], "s": round(time.time() - t0)}
        results[c] = {"applied": True, "builds": True, "checks": r}
    finally:
        subprocess.run(["git", "-C", "/repo", "checkout", "--", "."], check=True)
        subprocess.run(["/verif/harness/bin/extract", "/repo", "/verif/lean/XixiKV/Generated"], capture_output=True)
        subprocess.run(["/verif/harness/bin/trans", "/repo", "/verif/lean/XixiKV/Generated/Trans.lean"], capture_output=True)
        subprocess.run(["git", "-C", "/repo", "clean", "-fdq"], check=True)
    print(c, json.dumps(results[c])[:600], flush=True)
json.dump(results, open(os.path.join(V, "dev", "mutants-result.json"), "w"), indent=1)
