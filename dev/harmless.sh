#!/bin/sh
# dev-only: run every quick check against behaviour-preserving refactorings of /repo (scratch worktrees, VERIF_REPO);
# usage: dev/harmless.sh <patch dir> <first> <last>   (run from a checkout of /verif that has been set up)
PD=$(cd "$1" && pwd); A=$2; B=$3
for i in $(seq -w $A $B); do
  P=$PD/h$i.diff
  [ -f $P ] || continue
  W=/tmp/hw-$$-$i
  git -C /repo worktree add -q --detach $W HEAD && git -C $W apply $P || { echo "h$i: does not apply"; continue; }
  for p in C01 C02 C04 C05 C06 C07 C08 C09 C10 C11 C12 C13 C14 C15 C16 C17 C18 C19 C20 C03; do
    r=$(VERIF_REPO=$W bin/check $p quick 2>&1 | grep -E "^violation|pass" | head -2 | cut -c1-260 | tr '\n' ' ')
    echo "h$i $p: $r"
  done
  git -C /repo worktree remove --force $W
done
