#!/bin/sh
# dev-only: re-introduce a repaired defect (git revert of its fix commit in a scratch worktree of /repo) and run the quick
# checks of the properties it breaks there (VERIF_REPO); /repo itself is never touched.   usage: dev/revfix.sh <commit> <ids...>
c=$1; shift
W=/tmp/revfix-$$
git -C /repo worktree add -q --detach $W HEAD || exit 1
if ! git -C $W -c user.name=x -c user.email=x@x revert --no-commit $c >/dev/null 2>&1; then echo "$c: revert conflicts"; git -C /repo worktree remove --force $W; exit 0; fi
for p in "$@"; do
  r=$(VERIF_REPO=$W bin/check $p quick 2>&1 | grep -E "^violation|pass" | head -1 | cut -c1-200)
  echo "revert $c $p: $r"
done
git -C /repo worktree remove --force $W
