#!/usr/bin/env python3
"""dev-only: confirm an independently written seeded change (patch + demonstration) in a scratch
worktree, then run the registered checks against it on /repo and record the outcome under
/verif/seeded/<id>/.   usage: seeded.py <outdir> <PID> [extra property ids to run]"""
import json
import os
import shutil
import subprocess
import sys
import time

ENV = dict(os.environ, GOFLAGS="-mod=mod", GOPROXY="off", GOSUMDB="off", GOTOOLCHAIN="local", TMPDIR="/tmp/seedtmp")
os.makedirs("/tmp/seedtmp", exist_ok=True)
W = "/tmp/mw"


def sh(cmd, cwd=W, timeout=1500):
    r = subprocess.run(cmd, shell=True, cwd=cwd, env=ENV, capture_output=True, text=True, timeout=timeout)
    return r.returncode, (r.stdout + r.stderr)


def main():
    out, pid = sys.argv[1], sys.argv[2]
    extra = sys.argv[3:]
    src = os.path.join(out, pid)
    patch = os.path.join(src, "patch.diff")
    name = "%s-%s" % (pid, os.path.basename(out.rstrip("/")))
    dst = os.path.join("/verif/seeded", name)
    meta = {"property": pid, "source": "fresh sub-agent given only the property text and a scratch worktree", "ran": []}
    saved = "/root/scratch/seed-confirm-%s.json" % name
    if os.environ.get("SEEDED_SKIP_CONFIRM") and os.path.exists(saved):
        meta = json.load(open(saved))
        return detect(meta, pid, extra, patch, src, dst)
    sh("git checkout -- . && git clean -fdq")
    demos = [f for f in os.listdir(src) if f.endswith("_test.go")]
    # demo on the clean tree
    import re
    pkgof = {}
    for f in demos:
        m = re.search(r"^package\s+(\w+)", open(os.path.join(src, f)).read(), re.M)
        pkgof[f] = "./" + m.group(1) if m and m.group(1) in ("datafile", "index", "fio", "datatype", "utils") else "."
    pkg = " ".join(sorted(set(pkgof.values())))
    for f in demos:
        shutil.copy(os.path.join(src, f), os.path.join(W, pkgof[f], "zz_seed_" + f))
    tags = "-tags verif" if any("verif" in f or "go:build verif" in open(os.path.join(src, f)).read() for f in demos) else ""
    rc0, o0 = sh("go test %s -vet=off -count=1 -run 'Demo|Seed' %s 2>&1 | tail -15" % (tags, pkg))
    clean_pass = "ok" in o0 and "FAIL" not in o0
    rc, o = sh("git apply %s" % patch)
    if rc != 0:
        print("patch does not apply:", o)
        return 1
    rcb, ob = sh("go build ./... && go build -tags verif ./...")
    rc1, o1 = sh("go test %s -vet=off -count=1 -run 'Demo|Seed' %s 2>&1 | tail -25" % (tags, pkg))
    demo_fails = "FAIL" in o1
    for f in demos:
        os.remove(os.path.join(W, pkgof[f], "zz_seed_" + f))
    rcs, os_ = sh("go test -vet=off -count=1 ./... 2>&1 | tail -12")
    suite_green = "FAIL" not in os_ and rcb == 0
    sh("git checkout -- . && git clean -fdq")
    shutil.rmtree("/tmp/seedtmp", ignore_errors=True)
    os.makedirs("/tmp/seedtmp", exist_ok=True)
    meta["confirmed"] = {"builds": rcb == 0, "suite_green_with_change": suite_green, "demo_fails_with_change": demo_fails,
                         "demo_passes_without_change": clean_pass}
    meta["ran"].append("scratch worktree /tmp/mw: demo on clean HEAD, git apply, go build (both tags), demo, go test ./..., restore")
    print(name, meta["confirmed"])
    if not (rcb == 0 and suite_green and demo_fails and clean_pass):
        print(o0[-600:], o1[-600:], os_[-600:])
        json.dump(meta, open("/tmp/seed-%s.json" % name, "w"), indent=1)
        return 1
    json.dump(meta, open(saved, "w"), indent=1)
    if os.environ.get("SEEDED_CONFIRM_ONLY"):
        return 0
    return detect(meta, pid, extra, patch, src, dst)


def detect(meta, pid, extra, patch, src, dst):
    # detection: the checks run against a scratch worktree of /repo with the change applied (VERIF_REPO), so that /repo itself -
    # which background runs and helper sessions read - is never modified; equivalent to `git -C /repo apply` + checks + checkout
    D = "/tmp/mwdet"
    subprocess.run(["git", "-C", "/repo", "worktree", "remove", "--force", D], capture_output=True)
    subprocess.run(["git", "-C", "/repo", "worktree", "add", "--detach", D, "HEAD"], check=True, capture_output=True)
    subprocess.run(["git", "-C", D, "apply", patch], check=True)
    det = {}
    env = dict(os.environ, VERIF_REPO=D)
    try:
        for p in [pid] + extra:
            for tier in ("quick",):
                t0 = time.time()
                r = subprocess.run(["/verif/bin/check", p, tier], capture_output=True, text=True, cwd="/verif", env=env)
                v = [l for l in r.stdout.split("\n") if l.startswith("VIOLATION")]
                first = [l for l in r.stderr.split("\n") if l.startswith("violation:")][:2]
                det["%s %s" % (p, tier)] = {"exit": r.returncode, "violation_line": v[:1], "first": [x[:400] for x in first], "wall_s": round(time.time() - t0)}
                print(" ", p, tier, r.returncode, (first[0][:200] if first else ""))
    finally:
        subprocess.run(["git", "-C", "/repo", "worktree", "remove", "--force", D], capture_output=True)
        # harness module, generated Lean facts and evidence must not stay behind from the changed tree
        subprocess.run(["git", "-C", "/verif", "checkout", "--", "harness/go.mod", "evidence"], capture_output=True)
        subprocess.run(["/verif/harness/bin/extract", "/repo", "/verif/lean/XixiKV/Generated"], capture_output=True)
        subprocess.run(["/verif/harness/bin/trans", "/repo", "/verif/lean/XixiKV/Generated/Trans.lean"], capture_output=True)
        subprocess.run("cd /verif/harness && cp /repo/go.sum go.sum && go build -tags verif -o bin/xkv ./cmd/xkv && go build -tags verif -race -o bin/xkv-race ./cmd/xkv",
                       shell=True, env=ENV, capture_output=True)
    meta["detection"] = det
    meta["ran"].append("scratch worktree of /repo HEAD + git apply patch.diff; VERIF_REPO=<worktree> bin/check <id> quick; worktree removed")
    os.makedirs(dst, exist_ok=True)
    shutil.copy(patch, os.path.join(dst, "patch.diff"))
    for f in os.listdir(src):
        if f != "patch.diff":
            shutil.copy(os.path.join(src, f), os.path.join(dst, f if not f.endswith("_test.go") else f + ".txt"))
    notes = open(os.path.join(src, "notes.md")).read() if os.path.exists(os.path.join(src, "notes.md")) else ""
    meta["needs_to_manifest"] = notes[:1500]
    json.dump(meta, open(os.path.join(dst, "meta.json"), "w"), indent=1)
    return 0


sys.exit(main())
