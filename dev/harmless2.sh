#!/bin/sh
# dev-only: like harmless.sh, for a chosen list of checks.   usage: dev/harmless2.sh <patch dir> <first> <last> <ids...>
PD=$(cd "$1" && pwd); A=$2; B=$3; shift 3
for i in $(seq -w $A $B); do
  P=$PD/h$i.diff
  [ -f $P ] || continue
  W=/tmp/hw-$$-$i
  git -C /repo worktree add -q --detach $W HEAD && git -C $W apply $P || { echo "h$i: does not apply"; git -C /repo worktree remove --force $W; continue; }
  for p in "$@"; do
    r=$(VERIF_REPO=$W bin/check $p quick 2>&1 | grep -E "^violation|pass" | head -2 | cut -c1-260 | tr '\n' ' ')
    echo "h$i $p: $r"
  done
  git -C /repo worktree remove --force $W
done
